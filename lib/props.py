"""Per-property configuration of ./check (what the correspondence stream is, what counts as
non-trivial, the trusted base that is specific to the property)."""

PROPS = {
    "C16": {
        "also": ("SIZES",),
        "rule": "random histories (length ≤ 24 quick / ≤ 40 thorough) of alloc / alloc_with_val / set_value / alloc_array / "
                "alloc_from_array|iter / set_value_at / write_bytes / write_string / location_of_index over 20 record types of the "
                "writers, run on the real Buffer and on the Lean model; a separate hostile stream uses out-of-range array indices "
                "(the code has no guard; the model must predict overwrite, growth or panic). Non-trivial = at least two handles "
                "and at least one later fill (patch); distinct = distinct op-kind sequences among those. Plus DirSection::new on images of 0 … 100 bytes with the destination positioned anywhere: the reported directory position is the offset of the reservation in the image (dirpos). Histories on the real DirSection (dirhist), with unused entries among the entries handed over.",
        "expected_tags": ["op.A", "op.W", "op.S", "op.R", "op.F", "op.T", "op.B", "op.X", "op.L", "panic", "str.astral", "str.empty", "dir.position"],
        "trusted_base": ["scroll's Pwrite/SizeWith (a value of type T serialises to exactly size_with(T) little-endian bytes)",
                         "str::encode_utf16 (compared with the model's encoder on every generated string)"],
        "assumptions": ["image below 4 GiB (RVAs are u32; the theorems carry the guard explicitly)"],
        "explanation": "C16 theorems over the Lean model of src/mem_writer.rs (append laws, patch/frame laws, every valid history is a chain "
                       "of appends and confined patches, string layout, UTF-16 round trip for every string); the model is tied to the code by "
                       "running identical operation histories on the real Buffer/MemoryWriter/MemoryArrayWriter and on the model.",
        "extra_modules": ["MdwModel.Theorems.DirSlots"],
        "extra_theorems": ["DirSlots_source_agrees", "DirSlots_entry", "DirSlots_flush"]
    },
    "C09": {
        "rule": "random histories (≤ 24 / ≤ 40 ops) of grow / fill a not-yet-flushed slot / write_to_file(None|Some(entry)) on the real "
                "DirSection over a recording destination with random pre-existing content and start offset (one case in five positioned at or beyond 4 GiB in a sparse destination); one third of the cases "
                "inject an I/O failure or short writes at a random trait-level call; plus real dumps of live targets (the C01 generator) into a recording destination "
                "with pre-existing content and a non-zero starting position: bytes before the start untouched, the image from the start, bytes beyond untouched. "
                "Non-trivial = at least two flushes; distinct = "
                "distinct (result, #faults, start-at-end, op-kind sequence). In a third of the live C09 cases the destination refuses one of the last nine calls of the request (call count learnt from a request let through): the request must fail (bytes before the start untouched) or return what the destination holds. Op histories include entries (of empty streams) published right after the header flush, before anything behind the directory has been flushed.",
        "expected_tags": ["result.ok", "result.err", "result.err-new", "script.fault", "script.short", "start.atEnd", "start.zero", "start.beyond4G", "op.patch", "dest.equal", "start.nonzero", "dest.latefail", "aborted.prefix.checked"],
        "trusted_base": ["the destination honours seek (not O_APPEND) and a write that returns Ok(n) stored exactly the first n bytes",
                         "std::io::Write::write_all loop semantics (modelled; compared call by call)"],
        "assumptions": ["start offset inside the destination's existing content (theorem hypothesis; the gap case is compared against the model only)",
                        "stream writers patch only bytes that have not been flushed yet (a theorem hypothesis; checked on every real dump by the call-log replay)"],
        "explanation": "C09 theorems: mirror invariant kept by every operation under every destination script; failure post-condition; "
                       "success corollary (destination from start == image, nothing before/beyond modified).",
        "extra_modules": ["MdwModel.Theorems.FlushOrder"],
        "extra_theorems": ["FlushOrder_source_agrees", "FlushOrder_failed_flush", "FlushOrder_then_entry"]
    },
    "C10": {
        "rule": "same generator as C09 (failures only, no short writes) with a snapshot of the destination after every trait-level call; "
                "every snapshot taken after the first successful write is checked with the prefix-consistency predicate and compared with the "
                "model's call-boundary states. Plus real dumps of live targets (the C01 generator) over a recording destination: the call log is replayed "
                "and after every write each directory entry visible so far must have its stream and every object the stream refers to (stacks, contexts, "
                "names, CodeView records, memory, link maps) already in the destination; nothing already flushed may be rewritten except a directory slot. Non-trivial = at least one directory entry published; distinct as in C09.",
        "expected_tags": ["result.ok", "result.err", "script.fault", "snap.checked", "states.checked", "entries.many"],
        "trusted_base": ["write calls are atomic (File / Cursor behaviour); torn writes are C09's failure post-condition"],
        "assumptions": ["granularity = Write/Seek trait calls", "an entry and everything it references lie inside the image built when it is published (C01)"],
        "explanation": "C10_flush: every destination state after a completed call of write_to_file is a consistent snapshot of the old or the new "
                       "image; counterexample theorem for the pre-repair order. At the level of the whole-image model (Theorems/Truncated.lean): truncatedImage d k = header, directory with the first k published entries, bytes appended so far — what has reached the destination after the k-th writer's flush; Image_truncated: for every k every published entry lies inside it (in order, extents disjoint), its bytes and entries are those of the complete image, and the last one is the complete image; Image_truncated_entry: a visible entry is the complete image's entry in that slot and its stream lies inside the truncated image.",
        "extra_modules": ["MdwModel.Theorems.Truncated", "MdwModel.Theorems.DirSlots", "MdwModel.Theorems.FlushOrder"],
        "extra_theorems": ["Image_truncated", "Image_truncated_entry", "stage_ok", "foldl_stages", "DirSlots_source_agrees", "DirSlots_entry", "DirSlots_flush", "FlushOrder_source_agrees", "FlushOrder_failed_flush", "FlushOrder_then_entry"]
    },
    "C13": {
        "rule": "generated /proc/<pid>/maps texts (paths, pseudo names, none, ' (deleted)', spaces, [stack:N], /SYSVxxxxxxxx, all permission "
                "strings, contiguity/gap patterns, shared-library shaped groups with the linker's reserved gaps, offsets equal to the previous end) "
                "parsed by procfs-core and aggregated by the real MappingInfo::aggregate with a vDSO address that hits / misses a line; plus all "
                "sequences of ≤ 3 (quick) / ≤ 4 (thorough) lines over a 10-line alphabet × gap bits. Non-trivial = at least one merge rule fires; "
                "distinct = distinct (gate?, rule sequence, per-line (perms, name length)). Line permissions include inaccessible shared (---s) and write-only lines. "
                "Live cases: the dumper's own mapping list of a stopped target, after 0–2 further init() calls on the same dumper, against the target's "
                "memory map (the four predicates on the list in address order; then model = aggregate + entry-point swap).",
        "expected_tags": ["rule1", "rule2", "rule3", "push", "gate.renamed", "live", "live.reinits.0", "live.reinits.1", "live.reinits.2"],
        "trusted_base": ["procfs-core's maps line parser (the harness feeds the parsed entries to the model)"],
        "assumptions": ["well-formed memory map: non-empty ranges, ascending, non-overlapping (what the kernel reports)",
                        "'executable file mapping' in the third merge reason is read as 'file (path) mapping', which is what the code and Breakpad test"],
        "explanation": "C13 theorems over the Lean model of MappingInfo::aggregate (ghost-instrumented fold with an invariant proved by induction over "
                       "the lines): block decomposition / hull / admissible merge reasons, order and disjointness, cover and uniqueness, linux-gate "
                       "naming, system range inside the hull; the model is compared with the real aggregate on every generated map and the same "
                       "decidable predicates are evaluated on the implementation's output. DumperInit_* (Theorems/DumperInit.lean): the dumper's own list over any history of init() calls — a permutation of the aggregation of the last map read (the entry-point swap), every line in exactly one mapping, and put in address order it is that aggregation (all predicates); the one source fact used, that enumerate_mappings assigns the list rather than extending it, is regenerated from the source (Src.enumerateMappingsReplaces). C13_layout (Theorems/SystemLayout.lean): the aggregation of a well-formed map satisfies the layout hypothesis (system range inside the hull, system ranges pairwise disjoint, no 64-bit overflow) under which the sanitizer, the stack lookup and the whole gathering are total — what C12 / C06 / C02 assume of the mapping list is what C13 provides.",
        "extra_theorems": ["C13_layout", "sortedDisjoint_lt", "DumperInit_source_agrees", "swapEntry_perm", "DumperInit_perm", "DumperInit_coveredOnce", "DumperInit_history", "DumperInit_sorted", "DumperInit_predicates", "FoldSameFile_source_agrees", "FoldSameFile_different", "FoldSameFile_same"],
        "extra_modules": ["MdwModel.Theorems.SystemLayout", "MdwModel.Theorems.DumperInit", "MdwModel.Theorems.FoldSameFile"]
    },
    "C12": {
        "rule": "real sanitize_stack_copy on a synthetic dumper: mapping layouts (0-8 mappings, 1 page … 2^40 bytes, executable or not, straddling "
                "2 MiB buckets and the modulo-2048 wrap of the pre-filter, system range shorter than the hull) + a stack mapping; stacks seeded with "
                "boundary words (±small integers around ±4096, addresses at mapping edges and 2^32·2048 aliases, the sentinel itself); all offsets "
                "and lengths incl. lengths shorter than the offset. Non-trivial = at least 3 word classes present; distinct = distinct "
                "(#mappings, length, offset mod 8, class set)."
                " Plus real sanitizing dumps of live targets (the C01 generator): every captured stack must equal the model's sanitisation of the "
                "target's bytes with the thread's stack pointer and the aggregated mappings (the call site). Words at the ends of the signed range (2^63, 2^63 ± 1, 2^63 ± 4096). Live: threads whose stack pointer lies below the captured region (sp.below) over stack bottoms filled with small integers, stack and code pointers and other words.",
        "expected_tags": ["word.small+", "word.small-", "word.stack", "word.code", "word.prefilter.falsepos", "word.other", "len<offset", "partial.tail", "stack.sanitized", "stack.defaced", "sp.below"],
        "trusted_base": ["little-endian 64-bit words (x86_64)"],
        "assumptions": ["mapping list as produced by aggregate: system range inside the hull, pairwise disjoint system ranges, no 64-bit overflow (WfMaps; C13)"],
        "explanation": "C12 theorems over the Lean model of sanitize_stack_copy: totality, output structure (zeros below SP, classified words, zero partial tail), "
                       "length kept, and per word: unchanged iff it qualifies, sentinel otherwise (uses pre-filter soundness and the last-hit cache invariant); "
                       "counterexample theorems for the two repaired defects. System_stack_sanitized (Theorems/System.lean): for the request as one function over a paged target memory, the stack the image records for a thread (sanitization on, stack pointer in a mapping of readable pages) is the sanitization of the target's bytes of the recorded range with the thread's stack pointer and its offset in that range; the bytes below the aligned stack pointer are zero in the image.",
        "extra_modules": ["MdwModel.Theorems.System", "MdwModel.Theorems.SpBelow"],
        "extra_theorems": ["System_stack_sanitized", "SpBelow_source_agrees", "SpBelow_offset_zero", "SpBelow_reference_keeps_stack"],
    },
    "C06": {
        "rule": "real get_stack_info on synthetic layouts (accessible / PROT_NONE guard / unmapped, gaps around the 1 MiB guard distance, top of the "
                "address space, system range shorter than the hull), stack pointers at all in-page offsets; [live part: see DESIGN]. Non-trivial = "
                "at least one mapping; distinct = distinct (result class, SP situation, in-page offset, #mappings). Live sweep also with a thread whose stack pointer lies in the lowest mapping of the process (below the executable).",
        "expected_tags": ["result.ok", "result.err", "sp.mapped", "sp.guard", "sp.unmapped", "sp.top", "gather.checked", "gather.none"],
        "trusted_base": ["page size is a power of two"],
        "assumptions": ["mappings as produced by aggregate (HullOk; C13)"],
        "explanation": "C06 theorems: guard walk terminates within its fuel and never overflows, totality, region soundness, SP-in-accessible-memory case, "
                       "capped region contains SP and is ≤ 2 KiB, only threads at position ≥ 20 (never the crash-context thread) are shortened; "
                       "counterexample theorem for the repaired cap defect. "
                       "Theorems/EndToEnd.lean composes the parts of fill_thread_stack (get_stack_info, the shortening, copy_from_process as an oracle for "
                       "the target's memory, the unreferenced-stack rule, sanitization) into one gathering function and proves E2E_stack_contains_sp: a "
                       "thread whose stack pointer lies in an accessible mapping gets a recorded region that contains the stack pointer, lies inside the "
                       "mapping, holds the target's bytes (unsanitized) or zeros below the stack pointer (sanitized), reaches the mapping's end unless "
                       "shortened, and is shortened only under a limit at list position ≥ 20, never for the crash-context thread, to ≤ 2 KiB. "
                       "gatherThread / gatherThreads model the loop of thread_list_stream::write around it (which source each thread's stack pointer, "
                       "instruction pointer and registers come from, which thread is exempt): E2E_threads (one gathered thread per listed thread, in order, "
                       "at its list position), E2E_crash_thread / E2E_other_thread, E2E_crash_thread_full (the thread of the crash context reaches its "
                       "mapping's end under any limit at any position). The live driver evaluates gatherThread on every thread of every live C06 dump. "
                       "Theorems/EndToEndMem.lean instantiates the reader with the C17 reader model (copyFromProcess = fresh MemReader: vectored read, then "
                       "/proc/<pid>/mem, then ptrace, over a paged memory): where the pages under the stack's mapping are readable the reader hypothesis is "
                       "discharged (copy_reads_exactly_in), giving E2E_stack_readable with no assumption about the reader, and E2E_stack_recorded "
                       "(such a stack is recorded: the gathering succeeds with a region).",
        "extra_modules": ["MdwModel.Theorems.EndToEnd", "MdwModel.Theorems.EndToEndMem", "MdwModel.Theorems.MayBeStack"],
        "extra_theorems": ["gather_inv", "E2E_stack_contains_sp", "gather_order_agrees", "gather_crash_unlimited", "E2E_crash_thread", "E2E_other_thread", "E2E_threads", "E2E_crash_thread_full", "copy_readable", "copy_reads_exactly_in", "E2E_stack_readable", "E2E_stack_recorded", "MayBeStack_source_agrees", "MayBeStack_iff", "MayBeStack_read_only", "MayBeStack_write_only"]
    },
    "C20": {
        "rule": "real stack_has_pointer_to_mapping on stacks of length 0 … 64 with words at / next to both ends of the principal mapping at all "
                "alignments and offsets; [live part: see DESIGN]. Non-trivial = at least two scanned words; distinct = distinct (offset mod 8, #words, hit pattern). In a third of the live C20 cases the principal mapping is a module with a hole (readable part, inaccessible anonymous page, another part of the same file), addressed and referenced behind the hole.",
        "expected_tags": ["scan.true", "scan.false", "word.eq.high", "word.eq.low", "len<8", "crash.references", "crash.noreference"],
        "trusted_base": [],
        "assumptions": [],
        "explanation": "C20 theorems: the scan is true iff an aligned slot at/above the SP offset holds an address in the half-open system range; the inclusion "
                       "rule; no principal mapping ⇒ all stacks skipped; counterexample theorem for the repaired inclusive comparison. "
                       "E2E_skip_iff (Theorems/EndToEnd.lean): in the composed model of fill_thread_stack the stack is recorded iff the inclusion rule "
                       "holds on the copy actually taken (the shortened one under a limit), with the offset of the stack pointer in that copy. System_skip (Theorems/System.lean): for the request as one function over a paged target memory, the image records the stack of a thread (stack pointer in readable memory) iff the inclusion rule holds on the target's bytes of the (possibly shortened) region with the stack pointer's offset in that region; the thread's record and context are there either way.",
        "extra_modules": ["MdwModel.Theorems.EndToEnd", "MdwModel.Theorems.System", "MdwModel.Theorems.SpBelow"],
        "extra_theorems": ["E2E_skip_iff", "gather_order_agrees", "System_skip", "SpBelow_source_agrees", "SpBelow_offset_zero", "SpBelow_reference_keeps_stack"],
    },
    "C15": {
        "rule": "real thread_names_stream::write on a synthetic dumper: every subset of unnamed threads for n ≤ 6 (quick) / 8 (thorough), "
                "random lists of 1 … 32 threads with 0-75 % unnamed, names of length 0 … 15 incl. non-ASCII, astral, leading/trailing whitespace, "
                "random bytes already in the image. Non-trivial = mixed list (some named, some unnamed); distinct = distinct name-length patterns."
                " Plus real dumps of live targets whose threads carry empty, white-space, non-ASCII and default names: every record names a listed "
                "thread once with the kernel's comm (read independently, trailing white space trimmed), in thread-list order, and every listed thread "
                "with a readable name has a record. Thread names with embedded line feeds.",
        "expected_tags": ["mixed", "all.named", "none.named", "name.empty", "name.astral", "name.checked", "name.empty", "name.nonascii"],
        "trusted_base": ["str::encode_utf16 (units are taken from the real encoder; C16 covers the encoder model)"],
        "assumptions": ["thread ids below 2^31 (pid_t), image below 4 GiB"],
        "explanation": "C15 theorems over the Lean model of thread_names_stream::write: exact byte layout for every thread list (count ‖ one record per named "
                       "thread in order ‖ strings in order), record k points at the k-th name's string; counterexample theorem for the repaired indexing. "
                       "The driver compares model and implementation byte for byte and decodes the implementation's stream against the named threads. "
                       "C15_image_refines: the thread-names stage of the whole-image model (Model/Dump.lean) is what the operational writer model produces; "
                       "C15_image_name: in the model's image of any content, record j carries the j-th named thread's id and the location of its name string. System_name (Theorems/System.lean): for the request as one function, the j-th named thread read at enumeration has record j of the thread-names stream with its id and the location of its own name string.",
        "extra_modules": ["MdwModel.Theorems.System", "MdwModel.Theorems.CommName"],
        "extra_theorems": ["System_name", "CommName_source_agrees", "CommName_exact", "CommName_kernel", "CommName_blank"]
    },
    "C01": {
        "rule": "real dumps of generated live targets (vtarget: 1 … 64 threads blocked in a raw syscall with any mix of named / unnamed / non-ASCII names, "
                "stack-pointer page offsets, pattern regions, 0 … 40 open descriptors, synthetic linker data) under random option combinations "
                "(crash context with register values in / outside mappings, size limit, sanitize, skip-unreferenced, app memory, user mappings, "
                "direct auxv) into destinations with pre-existing content; the Lean decoder collects every object of the real image and evaluates the "
                "structural predicate. Distinct = distinct (#threads, #streams, option vector).",
        "expected_tags": ["cfg.crash", "cfg.limit", "cfg.sanitize", "cfg.skip", "cfg.app", "cfg.umap", "cfg.auxv", "threads.gt20", "stream.3", "stream.24", "stream.12", "image.exact"],
        "extra_theorems": ["plan_entries_fit", "plan_types_distinct", "consts_agree", "System_builder", "gatherDump_ok", "systemDump_ok", "ExcFields_source_agrees", "ExcFields_verbatim", "ExcFields_fallback_context"],
        "trusted_base": ["the writers fill array slots with indices below the array size (thread list, module list, memory list: `enumerate()` over the list "
                         "that sized the array; thread names: C15_layout; directory: plan_entries_fit)",
                         "Linux/x86_64 only; src/mac and src/windows writers cannot be built or run here"],
        "assumptions": ["image below 4 GiB", "bytes left by a best-effort writer that failed half-way are unreferenced garbage (allowed by the statement)"],
        "explanation": "C01 theorems: along every valid builder history the returned locations tile the image (pairwise disjoint, inside, in allocation order) and "
                       "every returned location is the extent of the object just created; plan obligations re-proved against the regenerated source: "
                       "published entries ≤ directory size, stream types pairwise distinct. The decidable predicate wfImage (header, directory, unique "
                       "stream types, sizes implied by counts, every stored RVA resolves to an object inside the image, no overlap except the two "
                       "intentional aliases) is evaluated on every real image. "
                       "Whole image: Model/Dump.lean is a closed-form model of generate_dump and its eighteen writers (header, directory, every stream body and "
                       "referenced blob in append order, every stored offset computed from what precedes it); C01_image_header / _directory / _streams_disjoint / "
                       "_thread_refs / _aliases prove, for every content record, what a reader finds in that image; the driver decodes every real image into such a "
                       "record and demands that the model rebuilds the image byte for byte (every byte of a real dump is accounted for by the model). C01_compose_dump: generate_dump as builder operations (header and directory reserved, header filled, the eighteen writers in order, each directory entry set into the next slot) produces exactly the closed-form image (opDump d = some (dumpBytes d)); C01_refine_* / C01_image_module_refs / _os_version / _handle_refs / _link_map_refs cover the remaining writers and references. System_builder (Theorems/System.lean): for the request as one function (gathering from the observed target state, then the image), the builder operations of generate_dump produce exactly the returned image.",
        "extra_modules": ["MdwModel.Theorems.System", "MdwModel.Theorems.ExcFields"]
    },
    "C19": {
        "rule": "live: 2 … 5 dump requests on one configured writer against a blocked target, then one request on a freshly configured writer; every "
                "image is decoded into a canonical, offset-independent summary (threads with stack and context fingerprints, modules, memory list, "
                "exception, system info, names, handles, linker data; raw /proc text only by presence) and compared with the fresh writer's. "
                "Before the last request of each history the target's resource limits are changed (prlimit), and the copies of the target's files that do "
                "not change by themselves (release file, cmdline, environ, auxv, maps, limits) in that request's dump are compared byte for byte with the "
                "fresh writer's dump of the same parked target. "
                "Distinct = distinct (k, option vector, summary length). In a quarter of the histories the target maps the page behind a partly readable application region before the last request; only that request is then compared with the fresh writer's. In a fifth of the histories the requests fail inside the thread-list writer (the crash context's instruction pointer lies in a page behind the end of a mapped file) until the file has grown before the last request. In a quarter of the plain histories the writer is reconfigured: the earlier requests are made with a principal address that resolves, the last with one at which nothing is mapped (only the last is compared).",
        "expected_tags": ["k.2", "k.3", "k.4", "k.5", "cfg.crash", "cfg.app", "cfg.skip", "raw.compared", "target.mutated", "target.grown", "writer.reconfigured"],
        "trusted_base": ["the target is blocked in raw syscalls, so its state is the same at every request"],
        "assumptions": ["Linux writer only (src/mac has the same field but cannot be built here)"],
        "explanation": "C19 theorems over the model of the writer's per-request state: with the reset on entry an image is independent of the state left by "
                       "earlier requests, hence in every history each image equals a fresh writer's; source fact (regenerated): dump() resets the three "
                       "fields; counterexample theorem for the unrepaired code. Live histories check the real writer. At the level of the image: C19_image_fresh (with the reset on entry the operations of dump() produce the closed-form image of what was gathered for this request: Compose_dump) and C19_image_legacy_counterexample (started with a block left behind, the same operations give a different image for the same request).",
    },
    "C05": {
        "rule": "in-process: random ucontext / fpstate register files (boundary values per field) through the real CrashContext::fill_cpu_context and scroll; "
                "live: real dumps with and without a crash context (registers inside / outside mappings, blamed thread main / other / absent / traced by "
                "another process so that it cannot be attached): decoded exception stream and blamed thread's entry. Non-trivial = every case; distinct = "
                "distinct register residues (in-process) / option vectors (live). Signal codes include the negative ones (SI_TKILL, SI_QUEUE, …) and the extremes. Signal numbers also from {0, 1, 5, 8, 31, 32 … 65, 255, 2^31, 2^32 − 1}.",
        "expected_tags": ["uctx", "cfg.crash", "cfg.nocrash", "blamed.listed", "blamed.unlisted"],
        "trusted_base": ["scroll field-wise little-endian serialisation of CONTEXT_AMD64 (byte-compared with the model)", "the live target reports its own register values"],
        "assumptions": ["x86_64", "ds/es/ss are not part of a ucontext; CONTEXT.MxCsr (top level) is left 0 by the writer, float_save.mx_csr carries the value"],
        "explanation": "C05 theorems: every general-purpose, flag, segment and x87/SSE register of the supplied ucontext sits at its WinNT CONTEXT offset in the "
                       "serialised record; exception-record layout; fields chosen with / without a crash context (incl. the repaired case of an unlisted "
                       "blamed thread). C05_image_listed / _unlisted: in the whole-image model (Model/Dump.lean) of any content the exception stream sits in "
                       "directory slot 3, names the blamed thread, carries the supplied values, and its context location is the location stored in the blamed "
                       "thread's thread-list record, where that context's bytes are (or the stand-alone copy of the supplied context). "
                       "E2E_crash_thread (Theorems/EndToEnd.lean): in the model of the thread-list loop the listed thread the crash context blames takes its "
                       "stack pointer, instruction pointer and registers from the crash context, whatever ptrace reported for it. System_crash_context (Theorems/System.lean): for the request as one function from the observed target state to the image, the exception stream carries the supplied signal data and its context is the supplied one, the same bytes the blamed thread's record points at.",
        "extra_modules": ["MdwModel.Theorems.EndToEnd", "MdwModel.Theorems.System", "MdwModel.Theorems.ExcFields"],
        "extra_theorems": ["E2E_crash_thread", "E2E_other_thread", "System_crash_context", "System_dump_requested", "ExcFields_source_agrees", "ExcFields_verbatim", "ExcFields_fallback_context"]
    },
    "C04": {
        "rule": "in-process: random user_regs / fpregs / debug registers through the real ThreadInfo::fill_cpu_context; live: targets whose threads load sentinel "
                "values into rbx rbp r8-r10 r12-r15, all 16 SSE and two x87 registers and block in a raw syscall (1 … 64 threads, all option combinations), "
                "threads made to exit at threads_enumerated / before_attach through the sync hook (target not group-stopped), a blamed thread traced by "
                "another process, busy threads keeping one counter in a register, a stack slot and an app-memory word. Distinct = (thread count, #exits, tag set). A failed request in the exiting / busy / slow-thread cases (whose destination accepts everything) is a violation.",
        "expected_tags": ["pctx", "thread.checked", "exit.omitted", "busy.checked", "blamed.traced", "exits.threads_enumerated", "exits.before_attach"],
        "extra_theorems": ["plan_no_target_read_after_resume", "plan_resume_reached", "System_threads", "Suspend_source_agrees", "Suspend_retained", "Suspend_every_thread_tried", "Suspend_kept_listed", "Suspend_partition", "Suspend_no_threads_left", "Suspend_no_threads_left_reported"],
        "trusted_base": ["kernel ptrace stop semantics (a thread that was attached and waited for does not run until detached)", "the live target reports its own register values"],
        "assumptions": ["part (iii) is partial: real scheduling cannot be exhibited by the model; live runs sample it (busy threads, one-step agreement of three copies of a counter)"],
        "explanation": "C04 theorems: (i) every ptrace-obtained register at its WinNT CONTEXT offset; (ii) the list is exactly the attachable, non-null-SP threads, "
                       "once each, each with its own registers, every omitted thread reported; (iii) regenerated source fact: no target-reading step after resume. C04_refine_thread_list: thread_list_stream::write as builder operations (count, reserved record array, per thread stack / window / context then set_value_at(record, idx)) appends exactly the thread-list stage of the whole-image model, one record per thread in order, and registers exactly its memory blocks and crashing-thread context; C04_image_thread: record k points at thread k's own context bytes. System_threads (Theorems/System.lean): the image of the request-as-one-function lists the attached threads one to one, in order, with their ids.",
        "extra_modules": ["MdwModel.Theorems.System", "MdwModel.Theorems.Suspend"],
    },
    "C07": {
        "rule": "live dumps: pattern regions of 1 … 70000 bytes at all alignments ending at an unmapped / PROT_NONE / readable page requested as app memory, "
                "crash instruction pointers inside / outside mappings, thread stacks; every recorded region is compared byte for byte with a snapshot of the "
                "target's memory taken while it is blocked; the IP window is predicted from the target's memory map through the aggregate model. "
                "Distinct = (list length, app lengths, tag set). Also requests made by a thread whose seccomp filter refuses process_vm_readv and pread64 (the reader falls back to PTRACE_PEEKDATA): application regions of every length mod 8 that end at a hole, crash instruction pointers just before it. Requested regions may share their start address with another requested region of a different length or with the page of a thread's stack pointer.",
        "expected_tags": ["bytes.compared", "cfg.app", "ipwindow.expected", "ip.unmapped", "cfg.sanitize", "read.ptrace", "app.partialword", "app.model", "ipwindow.model", "stack.model"],
        "trusted_base": ["the harness reads the target's memory through /proc/<pid>/mem while it is blocked"],
        "assumptions": ["first or later dump of a writer alike (C19)", "an unreadable app region or IP window aborts the dump with Err (outside C07)",
                        "with sanitization the stack regions are intentionally altered (C12) and are not byte-compared"],
        "explanation": "C07 theorems: IP window inside the first mapping containing IP, containing IP, ≤ 128 bytes to either side, clipped exactly; memory-list layout "
                       "(count + descriptors in registration order); registration completeness. Faithfulness of the bytes rests on C17. "
                       "C07_image_list / _thread_regions / _app_regions: in the whole-image model (Model/Dump.lean) of any content the memory list in directory slot 2 "
                       "is the serialised list of registered blocks; every captured stack, instruction-pointer window and application region is such a block with "
                       "the requested address and the length read, and the image holds its captured bytes at the block's location. Theorems/System.lean states these for the request as one function (systemDump = dumpBytes ∘ gatherDump over the observed target state, the reader being the C17 model): System_stack and System_app say that the image records stacks and readable application regions with their addresses, lengths and the target's bytes, and lists them in the memory list.",
        "extra_modules": ["MdwModel.Theorems.System", "MdwModel.Theorems.AppLoop"],
        "extra_theorems": ["System_stack", "System_app", "gatherApp_get", "gatherApp_descriptor_agrees", "System_window", "AppLoop_source_agrees", "AppLoop_same_start", "AppLoop_count"],
    },
    "C14": {
        "rule": "BuildId::read_from_module / SoName::read_from_module (slice mode, each under catch_unwind) on: random byte strings of 0 … 200 bytes; "
                "structure-aware corruptions of the crate's small 64-bit ELF and of generated 32-/64-bit, little-/big-endian images (every header, "
                "program-header, section-header, note and dynamic field set to 0, 1, max, max-1, the image size ± 1, offsets at/over the end; "
                "truncations at every structure boundary; class / data bytes flipped); and ELF files installed on the machine (60 quick / all, "
                "about 1900, thorough), for which `readelf -n -d` is the independent reader; well-formed images built from a specification (32/64 bit, "
                "either byte order, notes / dynamic table reachable through program headers, sections or both, foreign notes first, 8-aligned "
                "property segment, section names last in .shstrtab, segment bias) whose answers are known by construction; and the same generated "
                "images loaded by a live target (whole, split r / r-x, first page only, r-x + rw) and read from its memory next to the answers from "
                "the file. Distinct = (class+endianness, build-id strategy or "
                "error chain, soname strategy or error chain, size bucket). Generated images also with a loadable segment that begins at a non-zero file offset (p_vaddr − p_offset stays the link base). A case that does not come back within 45 s ends the run (HANG <case id>) and is reported as a violation with that case as replay. Generated images also with physical addresses that are zero or 1 MiB above the virtual ones.",
        "expected_tags": ["kind.file", "class.64", "class.32", "endian.be", "header.err", "buildid.note", "buildid.section", "buildid.texthash", "buildid.err",
                          "soname.phdr", "soname.section", "soname.err", "kind.wellformed", "kind.proc", "proc.consistent"],
        "theorem_namespace": "Elf.",
        "extra_theorems": ["Elf.noteLoop_eq_find", "Elf.ptNoteLoop_eq", "Elf.dynCollect_eq", "Elf.foldl_dynUpd", "Elf.rdInt_lt", "Elf.memRead_ok", "Elf.parseHeader_err", "NoteOwner_source_agrees", "NoteOwner_found_is_gnu"],
        "trusted_base": ["goblin 0.9.3 / scroll 0.12 parsing rules as transcribed in Model/Elf.lean (header, program/section headers, Dyn, notes) — "
                         "tied to the real crates by the correspondence runs only",
                         "core::str::lossy (Utf8Chunks) transcribed case by case", "binutils readelf as the independent reader on installed files"],
        "assumptions": ["the theorems are about reading a file / byte slice; reading from a live process (prefix reads, addresses instead of offsets) is "
                        "modelled and compared with the implementation on live targets, and memory = file is checked where the image is loaded at matching offsets",
                        "agreement: (a) over the parsed structure (what an independent reader lists) for every image; (b) as a serialiser round trip "
                        "(C14_roundtrip_buildid, C14_roundtrip_soname) for 64-bit little-endian images: one PT_NOTE segment of GNU-owned notes, resp. "
                        "PT_LOAD + PT_DYNAMIC with any leading entries and any string table around an ASCII name, each with an arbitrary tail; "
                        "the 32-bit / big-endian layouts and non-ASCII names have (a) only: partial"],
        "explanation": "C14 theorems over the Lean model of module_reader.rs + the goblin rules it relies on: totality (value or one of three error variants; "
                       "every loop structurally bounded by the window read; unchecked additions stay below 2^64), the build id equals the descriptor of "
                       "the first GNU/NT_GNU_BUILD_ID note of the PT_NOTE segments as an independent note lister finds it, serialiser round trips for the build-id "
                       "note (every descriptor, every list of preceding notes, every tail) and for the SONAME (every leading dynamic entries, string table, tail), the fall-back id is the column-wise XOR of the hashed range, "
                       "the SONAME equals the string at the last DT_SONAME offset of the dynamic table as an independent lister finds it.",
        "extra_modules": ["MdwModel.Theorems.NoteOwner"]
    },
    "C08": {
        "rule": "live dumps of targets that load 1 … 4 generated module files (ELF images built from a specification: 32/64 bit, either byte order, with / "
                "without build-id note, program headers, section headers, SONAME, segment bias; all-zero identifiers; non-ELF files; an ELF stored at offset "
                "4096 of an archive) under names with spaces, non-ASCII characters and .so.N version suffixes, mapped whole, split in r / r-x segments, with a "
                "reserved gap, from a non-zero offset, read-write, some unlinked after mapping; entry point inside the executable, inside a loaded module or "
                "nowhere; 0 … 2 caller-supplied mappings that cover a module, its first page only, the same range, an enclosing range or an unrelated one. "
                "The expected list is computed by the model from /proc/<pid>/maps (C13 model), the effective auxiliary vector and the ELF model applied to the "
                "files (slice mode) and to the memory image rebuilt from the map lines (process mode). Distinct = (#modules, #caller mappings, tag set). Some generated modules have the first 16 bytes of their loaded image overwritten by the target (file intact): identifier and SONAME must come from the file. Caller mappings whose system range begins one or two pages above their start (the two are independent inputs). Some modules consist of a part of one file, an inaccessible page and a part of a different file (two modules); SONAMEs of 254 … 4000 bytes.",
        "expected_tags": ["id.memory", "id.file", "id.none", "id.unusable", "soname.memory", "soname.file", "soname.none", "mapping.nonzero-offset",
                          "mapping.contained", "mapping.uninteresting", "entry.swapped", "entry.first", "entry.unlisted", "users", "version.some", "ref.checked", "ref.unlisted"],
        "theorem_namespace": "Mod.",
        "trusted_base": ["the ELF model (C14) supplies the readers' answers; the C13 model supplies the aggregated mappings",
                         "PathBuf push / pop / set_file_name / file_name as transcribed for absolute, normalised mapping names (tied to std by these runs only)",
                         "the memory image of a module is rebuilt from its file and the map lines (pages of private file mappings that nobody wrote to)"],
        "assumptions": ["caller-supplied mappings that partially overlap a module necessarily overlap it in the list: the no-overlap statement is for target-derived modules",
                        "caller-supplied mappings name files that do not exist (a name that exists and has a SONAME is renamed by the same rule as any module)"],
        "explanation": "C08 theorems over the Lean model of the module-list logic (sections/mappings.rs, is_interesting, is_contained_in, effective path, entry-point swap): "
                       "a target mapping is listed iff it is interesting, not wholly inside a caller-supplied mapping and has a usable identifier; listed modules are "
                       "the aggregated mappings' hulls in order, hence pairwise disjoint (from the C13 theorems) and without duplicates; the module holding the entry "
                       "point comes first; the name rule; caller-supplied mappings follow verbatim. The readers' answers are those of the C14 model. "
                       "E2E_module_in_image (Theorems/EndToEnd.lean) carries this into the whole-image model: for a dump whose module content is this module "
                       "list, every such mapping has a record in the image's module-list stream (directory slot 1, counting exactly the gathered modules) with "
                       "its base, size, CodeView record (ELF signature ‖ identifier) at the location the record names and the name string behind it. System_module (Theorems/System.lean): the same for the request as one function from the observed target state to the image.",
        "extra_modules": ["MdwModel.Theorems.EndToEnd", "MdwModel.Theorems.System", "MdwModel.Theorems.FoldSameFile"],
        "extra_theorems": ["E2E_module_in_image", "System_module", "FoldSameFile_source_agrees", "FoldSameFile_different", "FoldSameFile_same"]
    },
    "C17": {
        "rule": "live: MemReader::for_virtual_mem / for_file / for_ptrace and the reader without a chosen strategy (MemReader::new, what copy_from_process uses; target ptrace-stopped) on ranges inside, ending exactly at, and crossing the end of "
                "pattern regions (address-derived fill, every fifth 16-byte block all ones so that words equal to -1 are read; preceded by an unmapped page, with short ranges starting 0 … 8 bytes after it) followed by an unmapped page, a PROT_NONE page or another readable page; lengths 1 … 70000 dense near "
                "1 … 24 and near page multiples, every alignment mod 8. Distinct = (strategy, neighbour kind, start mod 8, length mod 8, pages, crossing, outcome). Plus reads of more than a thousand pages (1025 … 1050) from a 4.4 MB readable region through all four strategies: result and an FNV checksum of the bytes against the pattern.",
        "expected_tags": ["strat.v", "strat.f", "strat.p", "strat.a", "read.big", "kind.u", "kind.n", "kind.r", "range.inside", "range.atEnd", "range.crossing", "range.atStart", "len.partialWord", "result.err"],
        "trusted_base": ["kernel semantics of process_vm_readv (needs PROT_READ, page-granular prefix), pread(/proc/pid/mem) and PTRACE_PEEKDATA (FOLL_FORCE: any mapped page; "
                         "a peek fails if any of its 8 bytes is unmapped) — assumptions of the model, validated by these runs only"],
        "assumptions": ["'unreadable' for the file and ptrace strategies means unmapped: they return the real bytes of mapped PROT_NONE pages (not fabricated data)"],
        "explanation": "C17 theorems over the model of the three strategies on a paged memory: readable range ⇒ exact bytes (vectored; file; ptrace for every range "
                       "of at least a word, and for shorter ranges when either candidate word is mapped); otherwise failure or a non-empty prefix of readable "
                       "bytes (vectored) / failure (file, ptrace); soundness of whatever ptrace returns; counterexample theorem for the repaired tail read. "
                       "copy_readable (Theorems/EndToEndMem.lean): copy_from_process — a fresh reader trying the strategies in order — returns exactly the "
                       "target's bytes of a readable range; this is what discharges the reader hypothesis of the end-to-end stack theorems.",
        "extra_modules": ["MdwModel.Theorems.EndToEndMem"],
        "extra_theorems": ["copy_readable", "copy_reads_exactly_in"],
    },
    "C11": {
        "rule": "live dumps under every subset of the five fail points (32 combinations, 1 … 5 threads, with / without an unresolvable principal mapping) and "
                "under naturally induced failures: a thread name that is not UTF-8, garbage where the program headers are expected (direct auxv), a thread "
                "traced by another process, threads that exit between enumeration and attach (each omitted thread must be a reported soft error), a target "
                "that is killed and reaped while the dump is under way (from the destination, when the n-th directory entry is written, n = 6 … 16: every later "
                "step that copies one of the target's files or reads its memory must be listed under its own label, no completed step may be), nothing induced. The soft-error stream is parsed with serde_json and reduced to its list of variant paths. "
                "Distinct = (scenario, mask, #threads, principal). Also a linker list with an object name that is not UTF-8 (badlink). Also: the blamed thread traced by somebody else on a writer that served a request before (traced-reused), compared with a fresh writer's dump of the same situation. Also targets in which every thread is traced by another process (alltraced): one attach failure per thread and SuspendNoThreadsLeft are expected.",
        "expected_tags": ["scen.faults", "scen.badname", "scen.baddso", "scen.traced", "scen.none", "scen.killed", "killed.checked", "scen.badlink", "scen.traced-reused", "scen.alltraced", "mask.0", "mask.31"],
        "extra_theorems": ["plan_best_effort_soft", "plan_soft_errors_last", "Suspend_source_agrees", "Suspend_retained", "Suspend_every_thread_tried", "Suspend_kept_listed", "Suspend_partition", "Suspend_no_threads_left", "Suspend_no_threads_left_reported"],
        "extra_modules": ["MdwModel.Theorems.Suspend"],
        "trusted_base": ["serde_json emits well-formed JSON (the harness re-parses it)", "error-graph pushes a sub-list to its parent on drop iff it is non-empty", "failspot"],
        "assumptions": ["the stop time-out (StopProcessFailed/Timeout) may appear on its own when a thread is traced by another process: timing dependent, tolerated in the natural scenarios"],
        "explanation": "C11 theorems: for every stream plan and every set of failing soft steps the dump completes, exactly the failing steps are recorded in order and "
                       "every other stream is published (zero entry for the failed ones); instantiated with the plan regenerated from generate_dump (file copies, "
                       "linker data, handle data, soft-error serialisation are soft); init-phase steps are wrapped as soft errors (regenerated); expected tree "
                       "for every fail-point subset (compared path by path with the real stream).",
    },
    "C03": {
        "rule": "live: dumps that succeed, fail hard (unreadable app memory), hit a destination I/O error or a destination panic at a random call index 0 … 45, "
                "run with the process-wide stop disabled (also under a steady stream of realtime signals to every thread) or with a stop that times out, against targets with blocked and busy threads and, in one case in three, a "
                "sandbox-helper-like thread (null stack pointer: attached, then skipped); realtime signals are sent to chosen threads at the "
                "sync-hook points dump_start / threads_enumerated / before_attach(tid) / threads_suspended / before_resume / after_resume; targets whose "
                "leader is a zombie, targets with a thread that cannot act on signals for a while (parent of a vfork child) with signals sent to it, "
                "and such targets while signals without SA_RESTART keep interrupting the dumping thread's own waits (slow-eintr). Afterwards: "
                "State and TracerPid of every task, per-thread delivered-signal counters, heartbeat of busy threads. Distinct = (scenario, outcome, call, #tasks, #signals).",
        "expected_tags": ["scen.ok", "scen.destfail", "scen.destpanic", "scen.badapp", "scen.nostop", "scen.stoptimeout", "scen.nostop-storm", "scen.ok-signals", "scen.destfail-signals", "scen.slow-signals", "scen.slow-eintr", "signals.checked", "spin.checked", "result.panic", "thread.nullsp"],
        "trusted_base": ["kernel semantics of ptrace attach / signal-delivery-stop / detach / group stop / SIGCONT (assumed; the live matrix observes their effect)",
                         "a failed PTRACE_CONT or a non-stop wait status means the tracee no longer exists"],
        "assumptions": ["partial: the kernel side is not modelled beyond the assumptions above; externally sent SIGSTOP/SIGCONT are excluded",
                        "the re-injection branch is reached only when a signal is reported during the attach wait (its hit count is not observable from outside)"],
        "explanation": "C03 theorems over the dumper's action script: for every attach outcome of every thread and every ending (refused, init failure, hard error or "
                       "panic after k capture steps, after resume, completion) every surviving attached thread is detached exactly once, the trace ends with SIGCONT, "
                       "every signal seen while attaching is re-injected unchanged, no capture follows the first detach.",
        "extra_modules": ["MdwModel.Theorems.AttachLoop"],
        "extra_theorems": ["AttachLoop_source_agrees", "AttachLoop_all_signals", "AttachLoop_stop_after_signals"]
    },
    "C18": {
        "rule": "live dumps (same generated targets and option combinations as C01): raw streams vs. the harness's own reads of /proc/<tid>/{cmdline,environ,auxv,limits,maps,status} "
                "and /proc/cpuinfo taken while the target is blocked; memory-info list vs. the memory map through the model; handle descriptors vs. readlink/stat of "
                "/proc/<pid>/fd; system info vs. the cpuinfo scan model; linker debug stream vs. the synthetic PHDR → PT_DYNAMIC → DT_DEBUG → r_debug → link_map chain the "
                "target built (reached through caller-supplied auxv values). Distinct = (#map lines, #descriptors, #checks, #threads). A quarter of the live targets are the position-dependent build of the target program (ET_EXEC, load bias 0). Targets that keep a file open whose name is not UTF-8 or not ASCII: one handle descriptor per open descriptor, names by the lossy decoder. Synthetic linker lists with an object whose name ends with the last readable byte in front of a hole. Open files that have been unlinked; linker lists with a NULL l_name behind named objects.",
        "expected_tags": ["raw.cmdline", "raw.environ", "raw.auxv", "raw.limits", "raw.maps", "meminfo.checked", "handles.checked", "sysinfo.checked", "dso.checked"],
        "trusted_base": ["the contents of /proc are what the kernel reports (external input)", "procfs-core's maps parser"],
        "assumptions": ["partial: 'as the kernel reports them' is an external input; volatile lines of /proc/<tid>/status (State, TracerPid, context-switch counters, pending signals) are masked"],
        "explanation": "C18 theorems: memory-info entry per map line (range, 8-row protection table, private/shared type); direct auxv values are never overridden and unset ones "
                       "are filled by the named /proc pair; the link_map walk returns exactly an acyclic chain in order (and provably never terminates on a cyclic one).",
        "extra_modules": ["MdwModel.Theorems.LinkName"],
        "extra_theorems": ["LinkName_source_agrees", "LinkName_null", "LinkName_get"]
    },
    "C02": {
        "rule": "hostile inputs: 10⁴ / 10⁵ generated file names through the real SoVersion::parse (pieces incl. non-ASCII characters after digits, '+', overflowing numbers, "
                "invalid UTF-8); linker data crafted in a live target's memory next to a PROT_NONE page (cyclic and self-referential link_map lists, AT_PHNUM 2^40 and "
                "2^61, p_vaddr that under/overflows, dynamic entries / r_debug / link_map / names ending at unreadable memory, no DT_NULL) through the real "
                "write_dso_debug_stream under a 3 s watchdog; whole dumps of targets mapping files with hostile names (non-ASCII, spaces, ' (deleted)', `.so.1.2.3é4`, "
                "`/SYSVab`) and files from /dev/shm watched with inotify; the whole live option matrix with crash registers unmapped / at the top of the address space. "
                "Distinct = distinct (kind, scenario, outcome) / parsed versions. Hostile linker data also with program-header counts beyond what an ELF header can announce (65535 … 74000) over a 4 MiB readable region. Generated modules with a note segment that ends in the middle of the build-id note. A case that does not come back within 45 s ends the run (HANG <case id>) and is reported as a violation with that case as replay. Link-map lists with cycles that do not pass through the head (rho, rho-long, tail-selfloop), a dynamic table that is 8- but not 16-byte aligned in front of unreadable memory; the linker-data scenarios are taken in turn.",
        "expected_tags": ["sover", "sover.some", "sover.nonascii", "dso.cyclic", "dso.rho", "dso.rho-long", "dso.tail-selfloop", "dso.no-null-odd", "dso.mulphnum", "dso.dyn-short", "dso.linkmap-short", "dso.vaddr-underflow", "files.devshm-nonelf",
                          "files.sysv-name", "files.sover-name", "dump", "crash.ip.top", "crash.sp.top"],
        "extra_theorems": ["C12_total", "C06_total", "C06_walk_total", "C18_walk_cycle_diverges", "System_settled", "gatherStack_settled", "gatherThread_settled", "gatherApp_settled", "C13_layout", "System_settled_of_map", "LinkWalk_source_agrees", "LinkWalk_total"],
        "trusted_base": ["dependency code (procfs-core, goblin, nix, serde_json) is exercised, not modelled: panics inside it found by the live / fuzz runs are reported with a replay",
                         "the dev profile (overflow checks on) is what the checks run; in a release build the same inputs wrap silently"],
        "assumptions": ["'bounded time' is a step bound of the modelled loops plus a wall-clock watchdog on the live runs; the scan of a dynamic section without DT_NULL is bounded only by readable memory"],
        "explanation": "C02 theorems: the repaired link_map walk terminates on every memory (fuel > number of mapped records), evaluated self-loop; no file under /dev is ever opened for a "
                       "mapping; version parser instances incl. the formerly panicking input; imported totality theorems of the sanitiser, stack lookup and guard walk; the unrepaired walk "
                       "provably diverges on a cyclic list. System_settled (Theorems/SystemTotal.lean): the request as one function (Model/System.lean) ends with the content of a dump or an error return for every target state that satisfies the aggregation invariants — stack and instruction pointers anywhere in the 64-bit range, any memory contents and protections, any reads failing or short, any configuration; never a panic, never out of fuel (composes C06_total and C12_total through gatherStack / gatherThread / gatherThreads / gatherApp). System_settled_of_map (Theorems/SystemLayout.lean) discharges the layout hypothesis from the C13 theorems: it holds whenever the mapping list is the aggregation (with the entry-point swap) of a memory map whose lines are ascending, non-empty and do not overlap.",
        "extra_modules": ["MdwModel.Theorems.SystemTotal", "MdwModel.Theorems.SystemLayout", "MdwModel.Theorems.LinkWalk"],
    },
}

NOT_APPLICABLE = {}
HOOK_COMMITS = ["8536883"]
