import MdwModel.Driver.Live
import MdwModel.Driver.Image
namespace Mdw.Drv.C01
open Mdw Mdw.Drv Mdw.Drv.Live

def run (kv : List (String × String)) : IO Res := do
  if get kv "kind" == some "spawnfail" then return .bad s!"target spawn failed {get kv "why"}"
  let some result := get kv "result" | return .bad "result"
  let some cfg := (get kv "cfg").bind parseCfg | return .bad "cfg"
  let some thr := (get kv "thr").bind parseThreads | return .bad "thr"
  let mut tags : List String := [s!"result.{(result.splitOn ":").head!}"]
  if cfg.crash.isSome then tags := "cfg.crash" :: tags
  if cfg.limit.isSome then tags := "cfg.limit" :: tags
  if cfg.sanitize then tags := "cfg.sanitize" :: tags
  if cfg.principal.isSome then tags := "cfg.skip" :: tags
  if !cfg.app.isEmpty then tags := "cfg.app" :: tags
  if !cfg.umaps.isEmpty then tags := "cfg.umap" :: tags
  if cfg.auxv.isSome then tags := "cfg.auxv" :: tags
  if thr.length ≥ 21 then tags := "threads.gt20" :: tags
  if result != "ok" then
    -- a failed dump is outside C01 (the statement is about successful requests)
    return .ok ("dump.failed" :: tags)
  let some bytes ← readSidecar kv "img" | return .bad "img"
  let img := imgOf bytes
  match wfImage img with
  | some why => return .propfail why tags
  | none => pure ()
  -- every byte accounted for: the image is the model's layout of its own content
  match Image.checkImage bytes cfg.crash.isSome with
  | some why => return .mismatch why tags
  | none => tags := "image.exact" :: tags
  -- the image as the destination holds it (from the position it had when the request began) is as sound as the one
  -- the request returns: a reader of the file sees that one
  if let (some destB, some start) := (← readSidecar kv "dest", getNat kv "start") then
    let fileImg := imgOf (destB.extract start destB.size)
    match wfImage fileImg with
    | some why => return .propfail s!"the image in the destination (from position {start}): {why}" tags
    | none => tags := "dest.sound" :: tags
  -- header facts the statement names explicitly
  let some h := decodeHeader img | return .propfail "header" tags
  let some dir := decodeDirectory img h | return .propfail "directory" tags
  if dir.length != h.streamCount then return .propfail "directory length" tags
  let used := dir.filter (fun d => d.ty != 0)
  for d in used do
    tags := s!"stream.{d.ty}" :: tags
  let shape := s!"{thr.length}/{used.length}/{cfg.crash.isSome}/{cfg.limit.isSome}/{cfg.sanitize}/{cfg.principal.isSome}/{cfg.app.length}/{cfg.umaps.length}/{cfg.auxv.isSome}"
  return .ok tags (some shape)

end Mdw.Drv.C01
