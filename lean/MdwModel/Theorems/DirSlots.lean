/- The directory is a reserved array of 12-byte slots, filled in the order the entries are handed over: the k-th
   entry handed to `write_to_file` goes to slot k *whatever it contains* — the unused entry (a stream that failed
   softly) takes its slot like any other. In the model (`dumpDirEntry`, Model/DirSection.lean) the slot cursor advances
   on every path that gets as far as the destination's position; that `dump_dir_entry` has no early return in front of
   `curr_idx += 1` and always writes the slot is a regenerated source fact (`Src.dirEntryAlwaysAdvances`; false under
   the seeds C16_r20 and C10_r19, which return early for all-zero entries). -/
import MdwModel.Model.DirSection
import MdwModel.Generated.Source
namespace Mdw

theorem DirSlots_source_agrees : Src.dirEntryAlwaysAdvances = none ∨ Src.dirEntryAlwaysAdvances = some true := by decide

/-- a completed `dump_dir_entry` has put the entry's bytes into the slot the cursor pointed at and moved the cursor on
    by one — for every entry -/
theorem DirSlots_entry (sc : Script) (s s' : DS) (e : Bytes) (h : dumpDirEntry sc s e = some (s', true)) :
    s'.dir.currIdx = s.dir.currIdx + 1 ∧ s.dir.sec.setValueAt s.buf e s.dir.currIdx = some s'.buf := by
  unfold dumpDirEntry at h
  cases hb : s.dir.sec.setValueAt s.buf e s.dir.currIdx with
  | none => simp [hb] at h
  | some b1 =>
    simp only [hb] at h
    cases hc : (s.dest.streamPosition sc).2 with
    | none => simp [hc] at h
    | some cur =>
      simp only [hc] at h
      cases hl : s.dir.sec.locationOfIndex s.dir.currIdx with
      | none => simp [hl] at h
      | some loc =>
        simp only [hl] at h
        split at h
        · simp at h
        · split at h
          · simp at h
          · split at h
            · simp at h
            · simp only [Option.some.injEq, Prod.mk.injEq] at h
              obtain ⟨hs, _⟩ := h
              subst hs
              exact ⟨rfl, rfl⟩

/-- the same through `write_to_file` -/
theorem DirSlots_flush (sc : Script) (s s' : DS) (e : Bytes) (h : writeToFile sc s (some e) = some (s', true)) :
    s'.dir.currIdx = s.dir.currIdx + 1 ∧ s.dir.sec.setValueAt s.buf e s.dir.currIdx = some s'.buf := by
  unfold writeToFile at h
  split at h
  · simp at h
  · split at h
    split at h
    · simp at h
    · simp only at h
      have h2 := DirSlots_entry sc _ s' e h
      exact h2

end Mdw
