/- The build-id note is the first note that is *both* owned by "GNU" and of type 3; a note of type 3 with another owner
   (type numbers are per owner) is passed over and the scan goes on (`noteLoop_eq_find`, Theorems/C14.lean: the loop is a
   `find?` with that predicate over all well-formed notes). That the code tests both conditions at once and otherwise
   continues is a regenerated source fact (`Src.noteScanOwnerAndType`; false under the seed C14_r20, which stops at the
   first note of type 3). -/
import MdwModel.Theorems.C14
import MdwModel.Generated.Source
namespace Mdw

theorem NoteOwner_source_agrees : Src.noteScanOwnerAndType = none ∨ Src.noteScanOwnerAndType = some true := by decide

/-- the result of the scan satisfies both conditions: whatever is returned came from a GNU note of type 3 -/
theorem NoteOwner_found_is_gnu (b : Elf.Blob) (be : Bool) (w : Elf.Win) (al fuel off : Nat) (d : Bytes)
    (h : Elf.noteLoop b be w al fuel off = some d) :
    ∃ n ∈ Elf.allNotes b be w al fuel off, Elf.isGnuBuildId b n = true ∧ d = b.slice n.descOff n.descLen := by
  rw [Elf.noteLoop_eq_find] at h
  cases hf : (Elf.allNotes b be w al fuel off).find? (Elf.isGnuBuildId b) with
  | none => simp [hf] at h
  | some n =>
    simp only [hf, Option.map_some, Option.some.injEq] at h
    exact ⟨n, List.mem_of_find?_eq_some hf, List.find?_some hf, h.symm⟩

end Mdw
