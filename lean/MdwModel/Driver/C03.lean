import MdwModel.Driver.Live
namespace Mdw.Drv.C03
open Mdw Mdw.Drv Mdw.Drv.Live

def parsePairs (s : String) : Option (List (Nat × Nat)) :=
  (splitList s).mapM (fun t => match t.splitOn ":" with
    | [a, b] => do some (← a.toNat?, ← b.toNat?)
    | _ => none)

def run (kv : List (String × String)) : IO Res := do
  let some result := get kv "result" | return .bad "result"
  let some scen := get kv "scen" | return .bad "scen"
  let some sent := (get kv "sent").bind parsePairs | return .bad "sent"
  let some delivered := (get kv "delivered").bind parsePairs | return .bad "delivered"
  let states := splitList ((get kv "after_states").getD "-")
  let mut tags : List String := [s!"scen.{scen}", s!"result.{(result.splitOn ":").head!}"]
  if get kv "helper" == some "1" then tags := "thread.nullsp" :: tags
  -- the request returned or unwound: nobody is left attached or stopped
  for st in states do
    match st.splitOn ":" with
    | [tid, state, tracer] =>
      if tracer != "0" then return .propfail s!"thread {tid} is still traced (TracerPid {tracer}) after the request ended with {result}" tags
      if state == "T" || state == "t" then return .propfail s!"thread {tid} is still stopped (state {state}) after the request ended with {result}" tags
    | _ => return .bad "state"
  if states.isEmpty then return .bad "no task states"
  -- every signal sent before or during the dump was delivered exactly once
  let mut total := 0
  for (tid, n) in sent do
    let d := (delivered.find? (·.1 == tid)).map (·.2) |>.getD 0
    total := total + n
    if d != n then return .propfail s!"thread {tid}: {n} signals sent, {d} delivered" tags
  if total > 0 then tags := "signals.checked" :: tags
  -- busy threads run again
  for sp in splitList ((get kv "spin").getD "-") do
    match sp.splitOn ":" with
    | [tid, a, b] =>
      if a.toNat?.getD 0 ≥ b.toNat?.getD 0 then return .propfail s!"busy thread {tid} did not resume execution" tags
      tags := "spin.checked" :: tags
    | _ => return .bad "spin"
  return .ok tags (some s!"{scen}/{result}/{(get kv "call").getD "-"}/{states.length}/{total}")

end Mdw.Drv.C03
