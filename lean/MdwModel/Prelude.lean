/-
  Prelude: bytes, little-endian codecs, machine-integer helpers, outcomes.
  No imports outside core so that the driver links as a native executable.
-/
namespace Mdw

abbrev Bytes := List UInt8

/-- Result of a modelled Rust function: a value, an `Err` of some class, a panic
    (overflow / slice index / unwrap), or fuel exhaustion of a modelled loop. -/
inductive Outcome (α : Type) where
  | ok (a : α)
  | err (cls : String)
  | panic (why : String)
  | fuelOut
  deriving Repr, DecidableEq

namespace Outcome
def bind {α β} (x : Outcome α) (f : α → Outcome β) : Outcome β :=
  match x with
  | ok a => f a
  | err c => err c
  | panic w => panic w
  | fuelOut => fuelOut
instance : Monad Outcome where
  pure := ok
  bind := bind
def isOk {α} : Outcome α → Bool | ok _ => true | _ => false
def isPanic {α} : Outcome α → Bool | panic _ => true | _ => false
def cls {α} : Outcome α → String
  | ok _ => "ok" | err c => "err:" ++ c | panic _ => "panic" | fuelOut => "fuel"
end Outcome

def zeros (n : Nat) : Bytes := List.replicate n 0

/-- `k` bytes of `n`, little endian (truncating, like an `as` cast). -/
def le : Nat → Nat → Bytes
  | 0, _ => []
  | k+1, n => UInt8.ofNat (n % 256) :: le k (n / 256)

def unle : Bytes → Nat
  | [] => 0
  | b :: bs => b.toNat + 256 * unle bs

@[simp] theorem le_length (k n : Nat) : (le k n).length = k := by
  induction k generalizing n with
  | zero => rfl
  | succ k ih => simp [le, ih]

theorem unle_le (k n : Nat) (h : n < 256 ^ k) : unle (le k n) = n := by
  induction k generalizing n with
  | zero => simp [le, unle]; simp at h; omega
  | succ k ih =>
    have h2 : n / 256 < 256 ^ k := by
      rw [Nat.pow_succ] at h
      exact Nat.div_lt_of_lt_mul (by rw [Nat.mul_comm]; exact h)
    have hb : (UInt8.ofNat (n % 256)).toNat = n % 256 := by
      simp [UInt8.toNat_ofNat']
    simp [le, unle, ih _ h2, hb]
    omega

theorem unle_lt (bs : Bytes) : unle bs < 256 ^ bs.length := by
  induction bs with
  | nil => simp [unle]
  | cons b bs ih =>
    have hb : b.toNat < 256 := b.toNat_lt
    simp [unle, Nat.pow_succ]
    omega

theorem le_unle (bs : Bytes) : le bs.length (unle bs) = bs := by
  induction bs with
  | nil => rfl
  | cons b bs ih =>
    have hb : b.toNat < 256 := b.toNat_lt
    have h1 : (b.toNat + 256 * unle bs) % 256 = b.toNat := by omega
    have h2 : (b.toNat + 256 * unle bs) / 256 = unle bs := by omega
    simp [le, unle, h1, h2, ih]

/-- A view of some byte store (`List`, `ByteArray`, target memory …). -/
abbrev View := Nat → Option UInt8

def viewOfList (l : Bytes) : View := fun i => l[i]?

/-- Read `k` bytes at `off` through a view. -/
def readBytes (rd : View) (off : Nat) : Nat → Option Bytes
  | 0 => some []
  | k+1 => match rd off, readBytes rd (off+1) k with
    | some b, some bs => some (b :: bs)
    | _, _ => none

def readLE (rd : View) (off k : Nat) : Option Nat :=
  (readBytes rd off k).map unle

theorem readBytes_length {rd : View} {off k : Nat} {bs : Bytes}
    (h : readBytes rd off k = some bs) : bs.length = k := by
  induction k generalizing off bs with
  | zero => simp [readBytes] at h; simp [← h]
  | succ k ih =>
    simp only [readBytes] at h
    split at h
    · rename_i b bs' hb hbs
      simp at h; subst h; simp [ih hbs]
    · simp at h

theorem readBytes_list (l : Bytes) (off k : Nat) (h : off + k ≤ l.length) :
    readBytes (viewOfList l) off k = some ((l.drop off).take k) := by
  induction k generalizing off with
  | zero => simp [readBytes]
  | succ k ih =>
    have hlt : off < l.length := by omega
    have h1 : viewOfList l off = some l[off] := by simp [viewOfList, hlt]
    have h2 := ih (off+1) (by omega)
    simp only [readBytes, h1, h2]
    conv => rhs; rw [List.drop_eq_getElem_cons hlt, List.take_succ_cons]

-- Machine-integer helpers ------------------------------------------------------------------

def U32 : Nat := 2 ^ 32
def U64 : Nat := 2 ^ 64

/-- `x as u32`. -/
def asU32 (x : Nat) : Nat := x % 2 ^ 32
def asU16 (x : Nat) : Nat := x % 2 ^ 16
def asU8 (x : Nat) : Nat := x % 2 ^ 8

/-- checked `usize`/`u64` addition as compiled with overflow checks. -/
def add64 (a b : Nat) : Outcome Nat :=
  if a + b < 2 ^ 64 then .ok (a + b) else .panic "attempt to add with overflow"
def sub64 (a b : Nat) : Outcome Nat :=
  if b ≤ a then .ok (a - b) else .panic "attempt to subtract with overflow"
def mul64 (a b : Nat) : Outcome Nat :=
  if a * b < 2 ^ 64 then .ok (a * b) else .panic "attempt to multiply with overflow"
def add32 (a b : Nat) : Outcome Nat :=
  if a + b < 2 ^ 32 then .ok (a + b) else .panic "attempt to add with overflow"

end Mdw
