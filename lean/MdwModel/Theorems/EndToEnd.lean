/-
  From the target to the image, for thread stacks: the gathering step of `fill_thread_stack`
  (src/linux/sections/thread_list_stream.rs) composed from the models of its parts —
  `get_stack_info` (C06), the size-limit shortening (C06), `copy_from_process` (an oracle for the target's memory,
  C17), the unreferenced-stack rule (C20), `sanitize_stack_copy` (C12) — and then placed into the image by the
  whole-image model (Theorems/Image.lean).

    E2E_stack_contains_sp   a thread whose stack pointer lies in an accessible mapping and whose stack is kept gets a
                            captured region that contains the stack pointer, starts on its page or is a shortened
                            (≤ 2 KiB, only late threads under a limit) part of it — and, without sanitization, whose
                            bytes are the target's
    E2E_stack_in_image      … and the image built from that content stores exactly this region: the thread record's
                            stack range is (start, length) of the gathered region and the image bytes at the stored
                            location are the gathered bytes; the region is also a memory-list block at that location
    E2E_skip_iff            with skipping enabled the stack is kept iff ip or an aligned word at/above sp in the
                            (shortened) copy points into the principal mapping
-/
import MdwModel.Theorems.Image
import MdwModel.Model.Gather
import MdwModel.Generated.Source
import MdwModel.Theorems.C06
import MdwModel.Theorems.C20
import MdwModel.Theorems.C12
namespace Mdw

/-- **Proof obligation over the regenerated source.** The steps of `fill_thread_stack`, in the order the Rust text has
    them now, are the steps of `gatherStack` in the model's order (or the function is no longer recognisable to the
    extractor, in which case the live correspondence alone carries the tie). -/
theorem gather_order_agrees : Src.fillThreadStackSteps = none ∨ Src.fillThreadStackSteps = some gatherSteps := by decide

/-- the reader returns what was asked for, from the target's memory `mem` -/
def ReadsExactly (env : GEnv) (mem : Nat → UInt8) : Prop :=
  ∀ a n bs, env.read a n = some bs → bs = (List.range n).map (fun k => mem (a + k))

theorem range_map_get (n : Nat) (f : Nat → UInt8) (k : Nat) (hk : k < n) : ((List.range n).map f)[k]? = some (f k) := by
  simp [hk]

/-- what a recorded stack tells about the run that recorded it -/
theorem gather_inv (env : GEnv) (cfg : GCfg) (idx n currPos : Nat) (isCrash : Bool) (sp ip start : Nat) (bytes : Bytes)
    (hg : gatherStack env cfg idx n currPos isCrash sp ip = .ok (some (start, bytes))) :
    ∃ v l bs, getStackInfo env.ms env.page sp = .ok (v, l) ∧
      env.read (capRegion v l sp (maxStackLen cfg.limit (extraLimit cfg.limit n currPos) idx isCrash)).1
        (capRegion v l sp (maxStackLen cfg.limit (extraLimit cfg.limit n currPos) idx isCrash)).2 = some bs ∧
      start = (capRegion v l sp (maxStackLen cfg.limit (extraLimit cfg.limit n currPos) idx isCrash)).1 ∧
      includeStack cfg.skip cfg.principal ip bs (sp - start) = true ∧
      (cfg.sanitize = false → bytes = bs) ∧
      (cfg.sanitize = true → sanitize env.ms bs sp (sp - start) = .ok bytes) := by
  unfold gatherStack at hg
  split at hg
  · rename_i v l hgs
    refine ⟨v, l, ?_⟩
    simp only at hg
    split at hg
    · cases hg
    · rename_i bs hrd
      refine ⟨bs, hgs, hrd, ?_⟩
      split at hg
      · cases hg
      · rename_i hinc
        have hinc' : includeStack cfg.skip cfg.principal ip bs
            (sp - (capRegion v l sp (maxStackLen cfg.limit (extraLimit cfg.limit n currPos) idx isCrash)).1) = true := by
          simpa using hinc
        split at hg
        · rename_i hs
          split at hg
          · rename_i b hb
            injection hg with hg; injection hg with hg; injection hg with h1 h2
            subst h1; subst h2
            exact ⟨rfl, hinc', (fun h => by rw [hs] at h; cases h), (fun _ => hb)⟩
          · cases hg
          · cases hg
          · cases hg
        · rename_i hs
          injection hg with hg; injection hg with hg; injection hg with h1 h2
          subst h1; subst h2
          exact ⟨rfl, hinc', fun _ => rfl, fun h => absurd h hs⟩
  · cases hg

/-- **End to end (stack region).** -/
theorem E2E_stack_contains_sp (env : GEnv) (cfg : GCfg) (mem : Nat → UInt8) (idx n currPos : Nat) (isCrash : Bool) (sp ip : Nat)
    (m : Mapping) (start : Nat) (bytes : Bytes)
    (hp : 0 < env.page) (hw : HullOk env.ms) (hr : ReadsExactly env mem)
    (hf : findMapping env.ms (sp - sp % env.page) = some m) (hs : mayBeStack (some m) = true) (hsp : sp < m.start + m.size)
    (hsan : cfg.sanitize = true → WfMaps env.ms ∧ sp + 7 < 2 ^ 64)
    (hg : gatherStack env cfg idx n currPos isCrash sp ip = .ok (some (start, bytes))) :
    start ≤ sp ∧ sp < start + bytes.length ∧ start + bytes.length ≤ m.start + m.size ∧
    -- unsanitized: the bytes are the target's
    (cfg.sanitize = false → ∀ k, k < bytes.length → bytes[k]? = some (mem (start + k))) ∧
    -- sanitized: nothing below the (aligned) stack pointer survives
    (cfg.sanitize = true → ∀ k, k < min (align8 (sp - start)) bytes.length → bytes[k]? = some 0) ∧
    -- not shortened: from the stack pointer's page (or the mapping's start) to the mapping's end
    (maxStackLen cfg.limit (extraLimit cfg.limit n currPos) idx isCrash = none →
      start + bytes.length = m.start + m.size ∧ (start = sp - sp % env.page ∨ start = m.start)) ∧
    -- shortened only under a limit, at list position ≥ 20, never the crash-context thread, to at most 2 KiB
    (start + bytes.length < m.start + m.size →
      cfg.limit.isSome ∧ LIMIT_BASE_THREAD_COUNT ≤ idx ∧ isCrash = false ∧ bytes.length ≤ LIMIT_MAX_EXTRA_THREAD_STACK_LEN) := by
  obtain ⟨v, l, hgs, hv1, hv2, hv3, hv4⟩ := C06_mapped env.ms env.page sp m hp hw hf hs hsp
  obtain ⟨v', l', bs, hgs', hrd, hstart, _, hraw, hsz⟩ := gather_inv env cfg idx n currPos isCrash sp ip start bytes hg
  rw [hgs] at hgs'
  injection hgs' with hgs'; injection hgs' with e1 e2
  subst e1; subst e2
  have hbs := hr _ _ _ hrd
  have hlen0 : bs.length = (capRegion v l sp (maxStackLen cfg.limit (extraLimit cfg.limit n currPos) idx isCrash)).2 := by
    rw [hbs]; simp
  -- the recorded bytes have the length of the copy
  have hlenb : bytes.length = bs.length ∧
      (cfg.sanitize = true → ∀ k, k < min (align8 (sp - start)) bytes.length → bytes[k]? = some 0) := by
    cases hsn : cfg.sanitize with
    | false => exact ⟨by rw [hraw hsn], fun h => by cases h⟩
    | true =>
      obtain ⟨hwf, hsp7⟩ := hsan hsn
      have hpre : C12Pre env.ms (sp - start) := ⟨hwf, by omega⟩
      obtain ⟨out, ho, hz, _⟩ := C12_zero_regions env.ms bs sp (sp - start) hpre
      obtain ⟨out', ho', hl'⟩ := C12_len_kept env.ms bs sp (sp - start) hpre
      rw [hsz hsn] at ho ho'
      injection ho with ho; injection ho' with ho'
      subst ho
      subst ho'
      exact ⟨hl', fun _ k hk => hz k (by rw [← hl']; exact hk)⟩
  obtain ⟨hlb, hzero⟩ := hlenb
  have hcontent : cfg.sanitize = false → ∀ k, k < bytes.length → bytes[k]? = some (mem (start + k)) := by
    intro hsn k hk
    rw [hraw hsn] at hk ⊢
    rw [hstart]
    rw [hbs]; exact range_map_get _ _ _ (by omega)
  cases hcap : maxStackLen cfg.limit (extraLimit cfg.limit n currPos) idx isCrash with
  | none =>
    simp only [hcap, capRegion] at hlen0 hstart
    subst hstart
    exact ⟨hv1, by omega, by omega, hcontent, hzero, fun _ => ⟨by omega, hv4⟩, fun hlt => by omega⟩
  | some c =>
    obtain ⟨hc2048, hidx, hcr, lim, hlim, _⟩ := C06_only_extra_threads_shortened _ _ _ _ _ _ hcap
    have hc0 : 0 < c := by omega
    have hcapr := C06_cap v l sp c hc0 ⟨hv1, hv2⟩
    simp only [hcap] at hlen0 hstart
    obtain ⟨c1, c2, c3, c4, c5, c6, c7⟩ := hcapr
    rw [← hstart] at c1 c2 c5 c6
    refine ⟨c5, by omega, by omega, hcontent, hzero, (fun h => nomatch h), ?_⟩
    intro hlt
    refine ⟨by rw [hlim]; rfl, by simp only [LIMIT_BASE_THREAD_COUNT]; omega, hcr, ?_⟩
    simp only [LIMIT_MAX_EXTRA_THREAD_STACK_LEN]
    by_cases hlc : l ≤ c
    · have := c4 hlc
      rw [this] at hlen0 hstart
      simp only at hlen0 hstart
      omega
    · have := c7 (by omega); omega

/-- **End to end (skipping).** With skipping enabled, whether the stack is recorded is decided by the inclusion rule on
    the copy that was taken (the shortened one, for a late thread under a limit). -/
theorem E2E_skip_iff (env : GEnv) (cfg : GCfg) (idx n currPos : Nat) (isCrash : Bool) (sp ip v l : Nat) (bs : Bytes)
    (hgs : getStackInfo env.ms env.page sp = .ok (v, l)) (hns : cfg.sanitize = false)
    (hrd : env.read (capRegion v l sp (maxStackLen cfg.limit (extraLimit cfg.limit n currPos) idx isCrash)).1
      (capRegion v l sp (maxStackLen cfg.limit (extraLimit cfg.limit n currPos) idx isCrash)).2 = some bs) :
    let r := capRegion v l sp (maxStackLen cfg.limit (extraLimit cfg.limit n currPos) idx isCrash)
    (gatherStack env cfg idx n currPos isCrash sp ip = .ok none ↔ includeStack cfg.skip cfg.principal ip bs (sp - r.1) = false) ∧
    (gatherStack env cfg idx n currPos isCrash sp ip = .ok (some (r.1, bs)) ↔ includeStack cfg.skip cfg.principal ip bs (sp - r.1) = true) := by
  intro r
  unfold gatherStack
  rw [hgs]
  simp only
  rw [hrd]
  simp only [hns, Bool.false_eq_true, if_false]
  cases hinc : includeStack cfg.skip cfg.principal ip bs (sp - r.1) <;> simp [r, hinc]

/-- **End to end (into the image).** A dump whose `k`-th thread carries the gathered region stores exactly that region:
    the record's stack range is its start and length, the image holds its bytes at the stored location, and the
    memory list has a block for it at the same location. -/
theorem E2E_stack_in_image (d : DumpIn) (k : Nat) (t : DThread) (start : Nat) (bytes : Bytes)
    (hk : d.threads[k]? = some t) (hst : t.stack = some (start, bytes))
    (hsz : (dumpBytes d).length < 2 ^ 32) (htid : t.tid < 2 ^ 32) (hstart : start < 2 ^ 64) :
    let i := Img.ofBytes (dumpBytes d)
    let o := 32 + 12 * d.numWriters + 4 + 48 * k
    i.u64 (o + 24) = some start ∧ i.u32 (o + 32) = some bytes.length ∧ i.u32 (o + 36) = some (threadPos d k) ∧
    i.bytes (threadPos d k) bytes.length = some bytes ∧
    (⟨start, bytes.length, threadPos d k⟩ : Desc) ∈ (acc3 d).blocks := by
  intro i o
  have hr := Image_thread_read d k t hk hsz htid (by simp [hst]; exact hstart)
  have hb := (Image_thread_block d k t hk).1 start bytes hst
  have hsl : t.stackLen = bytes.length := by simp [DThread.stackLen, hst]
  have hsb : t.stackBytes = bytes := by simp [DThread.stackBytes, hst]
  obtain ⟨_, h2, h3, h4, _, _, h7, _⟩ := hr
  simp only [hst] at h2
  rw [hsl] at h3 h7
  rw [hsb] at h7
  exact ⟨h2, h3, h4, h7, hb.1⟩

/-- Non-vacuity: a guard page below a stack mapping, the stack pointer inside the stack mapping, a reader that
    answers every request; thread 25 of 30 under a size limit that is already exhausted: the gathering records a
    (shortened) region, so the hypotheses of `E2E_stack_contains_sp` are met by an evaluated instance. -/
example :
    let guard : Mapping := ⟨0x10000, 0x1000, 0x10000, 0x11000, 0, 16, none⟩
    let stk : Mapping := ⟨0x11000, 0x8000, 0x11000, 0x19000, 0, 3 + 16, none⟩
    let env : GEnv := ⟨[guard, stk], 4096, fun _ n => some (List.replicate n 0)⟩
    let cfg : GCfg := ⟨some 0, false, false, none⟩
    findMapping env.ms (0x12345 - 0x12345 % env.page) = some stk ∧ mayBeStack (some stk) = true ∧
    (match gatherStack env cfg 25 30 100000 false 0x12345 0x400000 with
     | .ok (some (s, _)) => s == 0x12000 | _ => false) = true := by decide

end Mdw
