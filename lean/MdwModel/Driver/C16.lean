import MdwModel.Driver.Common
import MdwModel.Driver.C09
import MdwModel.Model.BufferHistory
namespace Mdw.Drv.C16
open Mdw Mdw.Drv

/-- chunk a byte list into pieces of `sz` -/
def chunks (sz : Nat) (bs : Bytes) : Nat → List Bytes
  | 0 => []
  | fuel+1 => if bs.isEmpty then [] else bs.take sz :: chunks sz (bs.drop sz) fuel

inductive DOp where
  | op (o : Op)
  | locIdx (h idx : Nat)
  | str (units : List Nat) (scalars : List Nat)

def parseOp (s : String) : Option DOp :=
  match s.splitOn "." with
  | ["A", sz] => do some (.op (.alloc (← sz.toNat?)))
  | ["W", h] => do some (.op (.allocWithVal (← unhex h)))
  | ["S", h, v] => do some (.op (.setValue (← h.toNat?) (← unhex v)))
  | ["R", n, sz] => do some (.op (.allocArray (← n.toNat?) (← sz.toNat?)))
  | ["F", sz, v] => do
      let sz ← sz.toNat?
      let bs ← unhex v
      if sz == 0 then none else
      some (.op (.allocFromArray (chunks sz bs bs.length) sz))
  | ["T", h, i, v] => do some (.op (.setValueAt (← h.toNat?) (← i.toNat?) (← unhex v)))
  | ["B", v] => do some (.op (.writeBytes (← unhex v)))
  | ["X", us, cs] => do some (.str (← natList us) (← natList cs))
  | ["L", h, i] => do some (.locIdx (← h.toNat?) (← i.toNat?))
  | _ => none

def showLoc : Option Loc → String
  | some l => s!"{l.size}.{l.rva}"
  | none => "-.-"

def kind : DOp → String
  | .op (.alloc _) => "A" | .op (.allocWithVal _) => "W" | .op (.setValue ..) => "S"
  | .op (.allocArray ..) => "R" | .op (.allocFromArray ..) => "F" | .op (.setValueAt ..) => "T"
  | .op (.writeBytes _) => "B" | .op (.writeString _) => "X" | .str .. => "X" | .locIdx .. => "L"

/-- model's observation string for one op: `<size>.<rva>.<buflen>` or `P` -/
def modelObs (st : St) : DOp → Option St × String
  | .op o => match step st o with
    | some (st', r) => (some st', s!"{showLoc r}.{st'.buf.len}")
    | none => (none, "P")
  | .str units _ => match step st (.writeString units) with
    | some (st', r) => (some st', s!"{showLoc r}.{st'.buf.len}")
    | none => (none, "P")
  | .locIdx h i => match st.hs[h]? with
    | some (.arr a) => match a.locationOfIndex i with
      | some l => (some st, s!"{l.size}.{l.rva}.{st.buf.len}")
      | none => (none, "P")
    | _ => (none, "bad-handle")

/-- `DirSection::new` reserves the directory with `alloc_array` (C16_alloc_array: at the end of the image, 12 bytes per
    slot) and reports that reservation's position — an offset in the image, not in the destination -/
def runDirPos (kv : List (String × String)) : Res := Id.run do
  let some pre := getNat kv "pre" | return .bad "pre"
  let some start := getNat kv "start" | return .bad "start"
  let some slots := getNat kv "slots" | return .bad "slots"
  let some before := getNat kv "before" | return .bad "before"
  let some after := getNat kv "after" | return .bad "after"
  let some pos := get kv "position" | return .bad "position"
  let tags := ["dir.position", if start == 0 then "dest.atZero" else "dest.offset"]
  if before != pre then return .bad "pre"
  if after != before + 12 * slots then
    return .mismatch s!"directory of {slots} slots: the image grew from {before} to {after}, the model reserves {12 * slots} bytes" tags
  if pos != toString before then
    return .propfail s!"the directory was reserved at image offset {before}, but its reported position is {pos} (destination positioned at {start})" tags
  return .ok tags (some s!"dirpos/{pre}/{start == 0}/{slots}")

def run (kv : List (String × String)) : Res := Id.run do
  if get kv "kind" == some "dirpos" then return runDirPos kv
  -- histories on the real DirSection: the reserved directory array against the DirSection model (slot by slot)
  if get kv "kind" == some "dirhist" then return Drv.C09.run kv
  let some opsS := get kv "ops" | return .bad "no ops"
  let some obsS := get kv "obs" | return .bad "no obs"
  let some final := getHex kv "final" | return .bad "no final"
  let opStrs := splitList opsS ";"
  let obs := splitList obsS ";"
  if opStrs.length != obs.length then return .bad "ops/obs length"
  let mut st : St := ⟨Buf.empty, []⟩
  let mut tags : List String := []
  let mut shape := ""
  let mut patches := 0
  let mut k := 0
  for (os, ob) in opStrs.zip obs do
    let some op := parseOp os | return .bad s!"op {os}"
    tags := s!"op.{kind op}" :: tags
    shape := shape ++ kind op
    -- string ops: also check the UTF-16 encoder and the round trip on the real units
    if let .str units scalars := op then
      let cs := scalars.filterMap (fun n => if isScalar n then some (Char.ofNat n) else none)
      if cs.length != scalars.length then return .bad "non-scalar"
      if encode16 cs != units then
        return .mismatch s!"op#{k} encode16 model={encode16 cs} impl={units}" tags
      if decode16 units != some scalars then
        return .propfail s!"op#{k} utf16-roundtrip decode16 {units} ≠ {scalars}" tags
      if scalars.any (· ≥ 0x10000) then tags := "str.astral" :: tags
      if scalars.isEmpty then tags := "str.empty" :: tags
    let lenBefore := st.buf.len
    let (st', mo) := modelObs st op
    if mo != ob then
      return .mismatch s!"op#{k} {os} model={mo} impl={ob}" tags
    -- property predicate evaluated on the implementation's own observation:
    -- an appending op returns exactly (old end, appended size)
    match op, ob.splitOn "." with
    | .op (.setValue ..), _ | .op (.setValueAt ..), _ | .locIdx .., _ =>
      if ob != "P" then patches := patches + 1
    | _, [sz, rva, len] =>
      match sz.toNat?, rva.toNat?, len.toNat? with
      | some sz, some rva, some len =>
        if rva != lenBefore || lenBefore + sz != len then
          return .propfail s!"op#{k} {os} append-law: returned ({sz},{rva}) old end {lenBefore} new end {len}" tags
      | _, _, _ => pure ()
    | _, _ => pure ()
    match st' with
    | some s => st := s
    | none =>
      tags := "panic" :: tags
      -- history ends at a panic
      if k + 1 != opStrs.length then return .bad "ops after panic"
    k := k + 1
  if st.buf.inner != final then
    return .mismatch s!"final buffer model={hex st.buf.inner} impl={hex final}" tags
  let nontrivial := patches ≥ 1 && st.hs.length ≥ 2
  return .ok tags (if nontrivial then some shape else none)

end Mdw.Drv.C16
