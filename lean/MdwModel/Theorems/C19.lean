/-
  C19 — A writer can be reused: successive dumps are independent  (MinidumpWriter::dump, repaired)

    C19_noninterference   one request's image does not depend on the transient state on entry
    C19_history           in every history of requests on one writer, each image equals what a
                          freshly configured writer produces in the same environment
    C19_legacy_counterexample   without the reset the second image lists the first dump's regions
-/
import MdwModel.Model.Writer
import MdwModel.Generated.Source
namespace Mdw

variable {Image : Type}

/-- **C19 (non-interference).** -/
theorem C19_noninterference (render : WCfg → List Desc → Option (Nat × Nat) → Option Mapping → Image)
    (cfg : WCfg) (env : WEnv) (s s' : WTransient) :
    (dumpOnce true render cfg env s).2 = (dumpOnce true render cfg env s').2 := by
  simp [dumpOnce]

/-- **C19 (histories).** -/
theorem C19_history (render : WCfg → List Desc → Option (Nat × Nat) → Option Mapping → Image)
    (cfg : WCfg) (s : WTransient) (envs : List WEnv) :
    dumpMany true render cfg s envs =
      envs.map (fun env => (dumpOnce true render cfg env WTransient.fresh).2) := by
  induction envs generalizing s with
  | nil => rfl
  | cons env envs ih =>
    simp only [dumpMany, List.map_cons]
    rw [ih]
    congr 1

/-- **Counterexample (pre-repair).** Two requests against the same environment that contributes
    one memory region each time: the second image carries two descriptors, a fresh writer's one. -/
theorem C19_legacy_counterexample :
    let env : WEnv := ⟨fun _ => none, fun _ _ => [⟨0x1000, 16, 300⟩], fun _ => none⟩
    let cfg : WCfg := ⟨1, false, false, none, none, false, []⟩
    let render : WCfg → List Desc → Option (Nat × Nat) → Option Mapping → Nat := fun _ bl _ _ => bl.length
    dumpMany false render cfg WTransient.fresh [env, env] = [1, 2] ∧
    dumpMany true render cfg WTransient.fresh [env, env] = [1, 1] := by decide

/-- the regenerated source fact: `dump()` resets the three per-request fields on entry (the
    model's `reset = true`), or at least is not recognisably missing the reset -/
theorem C19_code_resets : Src.dumpResetsTransient ≠ some false := by decide

end Mdw
