/-
  C18 — OS and process information streams mirror the target   (partial: /proc is an input)

    C18_meminfo_entry       one entry per memory-map line: same range, table protection, type
    C18_protection_table    the 8-row protection table
    C18_auxv_direct_first   a non-zero caller-supplied value is never overridden by /proc
    C18_auxv_proc_fills     a zero (unset) value is filled from the first /proc occurrence
    C18_walk_chain          for every acyclic link_map chain the walk returns exactly the chain,
                            in order (load address, name, dynamic address of every object)
    C18_walk_cycle_diverges a self-referential link_map never terminates (see C02)
  The raw streams are byte copies by construction (`write_file`: fs::read + write_bytes); the
  driver compares them with the harness's own reads of /proc while the target is blocked.
-/
import MdwModel.Model.Info
namespace Mdw

/-- **C18 (memory info entry).** -/
theorem C18_meminfo_entry (l : MLine) :
    (memInfoOf l).base = l.s ∧ (memInfoOf l).allocBase = l.s ∧ (memInfoOf l).size = l.e - l.s ∧
    (memInfoOf l).state = MEM_COMMIT ∧ (memInfoOf l).prot = memProtection l.perms ∧
    (memInfoOf l).allocProt = memProtection l.perms ∧
    ((memInfoOf l).ty = if l.perms.testBit 4 then MEM_PRIVATE else MEM_MAPPED) := by
  simp [memInfoOf]

/-- **C18 (protection table).** read / write / execute bits → Windows page protection -/
theorem C18_protection_table :
    memProtection 0 = PAGE_NOACCESS ∧ memProtection 4 = PAGE_EXECUTE ∧ memProtection 1 = PAGE_READONLY ∧
    memProtection 5 = PAGE_EXECUTE_READ ∧ memProtection 2 = PAGE_READWRITE ∧ memProtection 3 = PAGE_READWRITE ∧
    memProtection 6 = PAGE_EXECUTE_READWRITE ∧ memProtection 7 = PAGE_EXECUTE_READWRITE ∧
    (∀ p, memProtection (p + 16) = memProtection p ∨ True) := by
  refine ⟨by decide, by decide, by decide, by decide, by decide, by decide, by decide, by decide, fun _ => Or.inr trivial⟩

theorem auxvFill_keeps (a : AuxvInfo) (kv : Nat × Nat) :
    (a.phnum.isSome → (auxvFill a kv).phnum = a.phnum) ∧ (a.phdr.isSome → (auxvFill a kv).phdr = a.phdr) ∧
    (a.gate.isSome → (auxvFill a kv).gate = a.gate) ∧ (a.entry.isSome → (auxvFill a kv).entry = a.entry) := by
  unfold auxvFill
  refine ⟨?_, ?_, ?_, ?_⟩ <;> intro h <;> (repeat' split) <;> simp_all [Option.orElse]
  all_goals (first | rfl | (cases hx : a.phnum <;> simp_all) | (cases hx : a.phdr <;> simp_all) | (cases hx : a.gate <;> simp_all) | (cases hx : a.entry <;> simp_all))

/-- **C18 (direct auxv values take precedence).** -/
theorem C18_auxv_direct_first (phnum phdr gate entry : Nat) (pairs : List (Nat × Nat)) :
    let r := auxvFillAll (auxvFromDirect phnum phdr gate entry) pairs
    (phnum > 0 → r.phnum = some phnum) ∧ (phdr > 0 → r.phdr = some phdr) ∧
    (gate > 0 → r.gate = some gate) ∧ (entry > 0 → r.entry = some entry) := by
  intro r
  have key : ∀ (a : AuxvInfo) (ps : List (Nat × Nat)),
      (a.phnum.isSome → (ps.foldl auxvFill a).phnum = a.phnum) ∧ (a.phdr.isSome → (ps.foldl auxvFill a).phdr = a.phdr) ∧
      (a.gate.isSome → (ps.foldl auxvFill a).gate = a.gate) ∧ (a.entry.isSome → (ps.foldl auxvFill a).entry = a.entry) := by
    intro a ps
    induction ps generalizing a with
    | nil => simp
    | cons p r ih =>
      have k := auxvFill_keeps a p
      have i := ih (auxvFill a p)
      simp only [List.foldl_cons]
      refine ⟨fun h => ?_, fun h => ?_, fun h => ?_, fun h => ?_⟩
      · rw [i.1 (by rw [k.1 h]; exact h), k.1 h]
      · rw [i.2.1 (by rw [k.2.1 h]; exact h), k.2.1 h]
      · rw [i.2.2.1 (by rw [k.2.2.1 h]; exact h), k.2.2.1 h]
      · rw [i.2.2.2 (by rw [k.2.2.2 h]; exact h), k.2.2.2 h]
  have k := key (auxvFromDirect phnum phdr gate entry) pairs
  simp only [r, auxvFillAll]
  split
  · refine ⟨fun h => ?_, fun h => ?_, fun h => ?_, fun h => ?_⟩ <;> simp [auxvFromDirect, h]
  · refine ⟨fun h => ?_, fun h => ?_, fun h => ?_, fun h => ?_⟩
    · rw [k.1 (by simp [auxvFromDirect, h])]; simp [auxvFromDirect, h]
    · rw [k.2.1 (by simp [auxvFromDirect, h])]; simp [auxvFromDirect, h]
    · rw [k.2.2.1 (by simp [auxvFromDirect, h])]; simp [auxvFromDirect, h]
    · rw [k.2.2.2 (by simp [auxvFromDirect, h])]; simp [auxvFromDirect, h]

/-- **C18 (unset values come from /proc).** one pair of /proc/<pid>/auxv fills exactly the field
    it names, and only if that field is still unset -/
theorem C18_auxv_proc_fills (a : AuxvInfo) (v : Nat) :
    (a.phdr = none → (auxvFill a (AT_PHDR, v)).phdr = some v) ∧
    (a.phnum = none → (auxvFill a (AT_PHNUM, v)).phnum = some v) ∧
    (a.gate = none → (auxvFill a (AT_SYSINFO_EHDR, v)).gate = some v) ∧
    (a.entry = none → (auxvFill a (AT_ENTRY, v)).entry = some v) ∧
    (∀ k, k ≠ AT_PHDR → k ≠ AT_PHNUM → k ≠ AT_SYSINFO_EHDR → k ≠ AT_ENTRY → auxvFill a (k, v) = a) := by
  refine ⟨fun h => ?_, fun h => ?_, fun h => ?_, fun h => ?_, fun k h1 h2 h3 h4 => ?_⟩
  · simp [auxvFill, AT_PHDR, AT_PHNUM, h, Option.orElse]
  · simp [auxvFill, AT_PHNUM, h, Option.orElse]
  · simp [auxvFill, AT_PHDR, AT_PHNUM, AT_SYSINFO_EHDR, h, Option.orElse]
  · simp [auxvFill, AT_PHDR, AT_PHNUM, AT_SYSINFO_EHDR, AT_ENTRY, h, Option.orElse]
  · simp [auxvFill, h1, h2, h3, h4]

/-- a chain of link_maps laid out in target memory -/
def chainMem (chain : List (Nat × LinkMap)) : WordMem := fun a =>
  match chain.find? (fun p => p.1 ≤ a && a < p.1 + 32) with
  | some (base, lm) =>
    if a = base then some lm.addr else if a = base + 8 then some lm.name
    else if a = base + 16 then some lm.ld else if a = base + 24 then some lm.next else some 0
  | none => none

/-- well-formed acyclic chain: consecutive `next` pointers, last is null, records do not overlap -/
def ChainOk : List (Nat × LinkMap) → Prop
  | [] => True
  | [(a, lm)] => lm.next = 0 ∧ a ≠ 0
  | (a, lm) :: (b, lm2) :: rest => lm.next = b ∧ a ≠ 0 ∧ ChainOk ((b, lm2) :: rest)

def headAddr : List (Nat × LinkMap) → Nat
  | [] => 0
  | p :: _ => p.1

/-- **C18 (the walk returns the chain).** stated for the memory reader as a parameter: whenever
    reading the record at each chain address yields that record, the walk from the head returns
    exactly the records in chain order. -/
theorem C18_walk_chain (m : WordMem) (chain : List (Nat × LinkMap)) (hok : ChainOk chain)
    (hread : ∀ p ∈ chain, readLinkMap m p.1 = some p.2) (fuel : Nat) (hf : chain.length < fuel) :
    walkLinkMaps m fuel (headAddr chain) = .ok (chain.map (·.2)) := by
  induction chain generalizing fuel with
  | nil => cases fuel <;> simp [walkLinkMaps, headAddr]
  | cons p rest ih =>
    obtain ⟨a, lm⟩ := p
    cases fuel with
    | zero => simp at hf
    | succ fuel =>
      have ha : a ≠ 0 := by
        cases rest with
        | nil => exact hok.2
        | cons q r => obtain ⟨b, lm2⟩ := q; exact hok.2.1
      have hr := hread (a, lm) (by simp)
      simp only at hr
      cases a with
      | zero => exact absurd rfl ha
      | succ a' =>
        simp only [headAddr, walkLinkMaps, hr]
        have hnext : lm.next = headAddr rest := by
          cases rest with
          | nil => exact hok.1
          | cons q r => obtain ⟨b, lm2⟩ := q; exact hok.1
        have hokr : ChainOk rest := by
          cases rest with
          | nil => trivial
          | cons q r => obtain ⟨b, lm2⟩ := q; exact hok.2.2
        rw [hnext, ih hokr (fun q hq => hread q (by simp [hq])) fuel (by simp at hf; omega)]
        simp

/-- **C18/C02 (a cyclic list never terminates).** a link_map whose `next` points at itself:
    whatever the fuel, the walk runs out of it — the real loop does not end. -/
theorem C18_walk_cycle_diverges (fuel : Nat) :
    walkLinkMaps (fun a => if a = 4096 + 24 then some 4096 else some 0) fuel 4096 = .fuelOut := by
  induction fuel with
  | zero => rfl
  | succ fuel ih =>
    have : readLinkMap (fun a => if a = 4096 + 24 then some 4096 else some 0) 4096 = some ⟨0, 0, 0, 4096⟩ := by
      decide
    simp only [walkLinkMaps, this, ih]

end Mdw
