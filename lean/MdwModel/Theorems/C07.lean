/-
  C07 — The memory list is faithful and complete

    C07_ip_window     the window recorded around the crash instruction pointer lies inside the first
                      mapping containing it, contains the instruction pointer, reaches at most
                      128 bytes to either side and is clipped exactly at the mapping's ends
    C07_list_layout   the memory-list stream is the count followed by one 16-byte descriptor per
                      registered block, in registration order (stacks / IP window in thread order,
                      then application regions)
    C07_blocks_complete   every non-empty stack, the IP window and every application region that
                      was read is registered
  Byte-for-byte faithfulness of the recorded bytes is C17 (the reader returns the target's bytes);
  the driver compares every recorded region with the target's memory.
-/
import MdwModel.Model.Exception
import MdwModel.Theorems.CtxLayout
import MdwModel.Theorems.Image
import MdwModel.Theorems.Refine
import MdwModel.Theorems.EndToEnd
namespace Mdw

/-- **C07 (IP window).** -/
theorem C07_ip_window (ms : List Mapping) (ip lo len : Nat) (h : ipWindow ms ip = some (lo, len)) :
    ∃ m ∈ ms, m.start ≤ ip ∧ ip < m.start + m.size ∧
      m.start ≤ lo ∧ lo + len ≤ m.start + m.size ∧ lo ≤ ip ∧ ip < lo + len ∧
      ip ≤ lo + 128 ∧ lo + len ≤ ip + 128 ∧ len ≤ 256 ∧
      (lo = m.start ∨ lo + 128 = ip) ∧ (lo + len = m.start + m.size ∨ lo + len = ip + 128) := by
  unfold ipWindow at h
  cases hf : ms.find? (fun m => !(decide (ip < m.start) || decide (ip ≥ m.start + m.size))) with
  | none => rw [hf] at h; simp at h
  | some m =>
    rw [hf] at h
    have hm := List.mem_of_find?_eq_some hf
    have hp := List.find?_some hf
    simp only [Bool.not_eq_true', Bool.or_eq_false_iff, decide_eq_false_iff_not, Nat.not_lt, ge_iff_le, Nat.not_le] at hp
    simp only [ipWindow.Src_ipHalf, Option.some.injEq, Prod.mk.injEq] at h
    obtain ⟨h1, h2⟩ := h
    refine ⟨m, hm, hp.1, hp.2, ?_⟩
    subst h1; subst h2
    omega

/-- **C07 (list layout).** -/
theorem C07_list_layout (blocks : List Desc) (k : Nat) (d : Desc) (hk : blocks[k]? = some d)
    (hn : blocks.length < 2 ^ 32) (hd : d.start < 2 ^ 64 ∧ d.size < 2 ^ 32 ∧ d.rva < 2 ^ 32) :
    let s := memoryListStream blocks
    s.length = 4 + 16 * blocks.length ∧ fieldAt s 0 4 = blocks.length ∧
    fieldAt s (4 + 16 * k) 8 = d.start ∧ fieldAt s (4 + 16 * k + 8) 4 = d.size ∧
    fieldAt s (4 + 16 * k + 12) 4 = d.rva := by
  intro s
  have p4 : (256 : Nat) ^ 4 = 2 ^ 32 := by decide
  have p8 : (256 : Nat) ^ 8 = 2 ^ 64 := by decide
  have hlen : ∀ bl : List Desc, (bl.flatMap serDesc).length = 16 * bl.length := by
    intro bl
    induction bl with
    | nil => rfl
    | cons a r ih => simp [List.flatMap_cons, serDesc, ih]; omega
  have hk' : k < blocks.length := by
    rcases Nat.lt_or_ge k blocks.length with h | h
    · exact h
    · rw [List.getElem?_eq_none h] at hk; cases hk
  have hsplit : blocks = blocks.take k ++ d :: blocks.drop (k + 1) := by
    rw [List.getElem?_eq_getElem hk'] at hk
    injection hk with hk
    rw [← hk]; simp
  have hs : s = (le 4 blocks.length ++ (blocks.take k).flatMap serDesc) ++
      (le 8 d.start ++ (le 4 d.size ++ (le 4 d.rva ++ (blocks.drop (k + 1)).flatMap serDesc))) := by
    simp only [s, memoryListStream]
    have hf : blocks.flatMap serDesc = (blocks.take k).flatMap serDesc ++
        (le 8 d.start ++ (le 4 d.size ++ (le 4 d.rva ++ (blocks.drop (k + 1)).flatMap serDesc))) := by
      conv => lhs; rw [hsplit]
      simp only [List.flatMap_append, List.flatMap_cons, serDesc, List.append_assoc]
    rw [hf, List.append_assoc]
  have hpre : (le 4 blocks.length ++ (blocks.take k).flatMap serDesc).length = 4 + 16 * k := by
    rw [List.length_append, le_length, hlen, List.length_take]
    have : min k blocks.length = k := by omega
    rw [this]
  refine ⟨?_, ?_, ?_, ?_, ?_⟩
  · simp only [s, memoryListStream, List.length_append, le_length, hlen]
  · simp only [s, memoryListStream]
    exact fieldAt_head 4 _ _ (by rw [p4]; exact hn)
  · rw [hs, fieldAt_skip _ _ _ _ (by rw [hpre]; exact Nat.le_refl _), hpre, Nat.sub_self]
    exact fieldAt_head 8 _ _ (by rw [p8]; exact hd.1)
  · rw [hs, fieldAt_skip _ _ _ _ (by rw [hpre]; omega), hpre]
    have : 4 + 16 * k + 8 - (4 + 16 * k) = 8 := by omega
    rw [this, fieldAt_skip _ _ _ _ (by simp)]
    simp only [le_length, Nat.sub_self]
    exact fieldAt_head 4 _ _ (by rw [p4]; exact hd.2.1)
  · rw [hs, fieldAt_skip _ _ _ _ (by rw [hpre]; omega), hpre]
    have : 4 + 16 * k + 12 - (4 + 16 * k) = 12 := by omega
    rw [this, fieldAt_skip _ _ _ _ (by simp), fieldAt_skip _ _ _ _ (by simp)]
    simp only [le_length]
    exact fieldAt_head 4 _ _ (by rw [p4]; exact hd.2.2)

/-- **C07 (completeness of registration).** what a thread registers contains its stack and its
    IP window whenever they were written -/
theorem C07_blocks_complete (stack window : Option Desc) :
    (∀ d, stack = some d → d ∈ threadBlocks stack window) ∧
    (∀ d, window = some d → d ∈ threadBlocks stack window) := by
  constructor <;> intro d h <;> subst h
  · cases window <;> simp [threadBlocks]
  · cases stack <;> simp [threadBlocks]

example : ipWindow [⟨0x1000, 0x1000, 0x1000, 0x2000, 0, 5, none⟩] 0x1010 = some (0x1000, 0x90) := by decide


-- the whole image ----------------------------------------------------------------------------------------------------

/-- **C07 (image: the list).** in the model's image of any content the memory list published in directory slot 2 is
    the serialised list of registered blocks -/
theorem C07_image_list (d : DumpIn) :
    (dumpAcc d).dir[2]? = some ⟨ST_MEMORY_LIST, 4 + 16 * (acc3 d).blocks.length, (acc3 d).pos⟩ ∧
    At (dumpBytes d) (acc3 d).pos (memoryListStream (acc3 d).blocks) := Image_memory_list d

/-- **C07 (image: stacks and the instruction-pointer window).** every captured stack and every window is a block of
    that list, and the image holds the captured bytes at the block's location -/
theorem C07_image_thread_regions (d : DumpIn) (k : Nat) (t : DThread) (hk : d.threads[k]? = some t) :
    (∀ s b, t.stack = some (s, b) →
      (⟨s, b.length, threadPos d k⟩ : Desc) ∈ (acc3 d).blocks ∧ At (dumpBytes d) (threadPos d k) b) ∧
    (∀ s b, t.window = some (s, b) →
      (⟨s, b.length, threadPos d k + t.stackLen⟩ : Desc) ∈ (acc3 d).blocks ∧ At (dumpBytes d) (threadPos d k + t.stackLen) b) :=
  Image_thread_block d k t hk

/-- **C07 (image: application regions).** every application region that was read is a block with exactly the
    requested address and the length read, and the image holds its bytes at the block's location -/
theorem C07_image_app_regions (d : DumpIn) (j : Nat) (a : Nat) (b : Bytes) (hj : d.app[j]? = some (a, b)) :
    (⟨a, b.length, (acc2 d).pos + appOff d.app j⟩ : Desc) ∈ (acc3 d).blocks ∧
    At (dumpBytes d) ((acc2 d).pos + appOff d.app j) b := Image_app_block d j a b hj


/-- **C07 (the writers refine the image model).** the builder operations of `memory_list_stream::write` and
    `app_memory::write` produce exactly the memory-list stage / application-memory stage of the image model -/
theorem C07_refine_memory_list (b : Buf) (blocks : List Desc) (hb : b.len + 4 + 16 * blocks.length < 2 ^ 32) :
    opMemoryList b blocks = some (⟨b.inner ++ memoryListStream blocks⟩, ⟨ST_MEMORY_LIST, 4 + 16 * blocks.length, b.len⟩) :=
  Refine_memory_list b blocks hb

theorem C07_refine_app_memory (b : Buf) (app : List (Nat × Bytes)) (hb : b.len + (appBlobs app).length < 2 ^ 32) :
    opApp b app = (⟨b.inner ++ appBlobs app⟩, appBlocksAt b.len app) := Refine_app_memory b app hb

/-- **C07 (end to end, thread stacks).** From the target to the image: when the gathering step of the thread-list writer
    (`gatherStack`, the composed model of `fill_thread_stack`) records an unsanitized region for the `k`-th thread,
    the image lists that region in the memory list's blocks at the location the thread record names, and the image
    bytes at that location are the target's memory at the region's addresses. -/
theorem C07_e2e_stack (env : GEnv) (cfg : GCfg) (mem : Nat → UInt8) (idx n currPos : Nat) (isCrash : Bool) (sp ip : Nat)
    (m : Mapping) (d : DumpIn) (k : Nat) (t : DThread) (start : Nat) (bytes : Bytes)
    (hp : 0 < env.page) (hw : HullOk env.ms) (hr : ReadsExactly env mem)
    (hf : findMapping env.ms (sp - sp % env.page) = some m) (hs : mayBeStack (some m) = true) (hsp : sp < m.start + m.size)
    (hns : cfg.sanitize = false)
    (hg : gatherStack env cfg idx n currPos isCrash sp ip = .ok (some (start, bytes)))
    (hk : d.threads[k]? = some t) (hst : t.stack = some (start, bytes))
    (hsz : (dumpBytes d).length < 2 ^ 32) (htid : t.tid < 2 ^ 32) (hstart : start < 2 ^ 64) :
    let i := Img.ofBytes (dumpBytes d)
    start ≤ sp ∧ sp < start + bytes.length ∧
    (⟨start, bytes.length, threadPos d k⟩ : Desc) ∈ (acc3 d).blocks ∧
    i.bytes (threadPos d k) bytes.length = some ((List.range bytes.length).map (fun j => mem (start + j))) := by
  intro i
  obtain ⟨h1, h2, _, hc, _⟩ := E2E_stack_contains_sp env cfg mem idx n currPos isCrash sp ip m start bytes hp hw (hr.within _ _) hf hs hsp
    (fun h => by rw [hns] at h; cases h) hg
  obtain ⟨_, _, _, hb, hmem⟩ := E2E_stack_in_image d k t start bytes hk hst hsz htid hstart
  refine ⟨h1, h2, hmem, ?_⟩
  have : bytes = (List.range bytes.length).map (fun j => mem (start + j)) := by
    apply List.ext_getElem?
    intro j
    by_cases hj : j < bytes.length
    · rw [hc hns j hj, range_map_get _ _ _ hj]
    · rw [List.getElem?_eq_none (by omega), List.getElem?_eq_none (by simp; omega)]
  rw [← this]; exact hb

/-- **C07 (end to end, the window around the crash instruction pointer).** `E2E_window_in_image` under this property's
    name: gathered thread list + crash context whose instruction pointer lies in a mapping ⇒ the memory list's blocks
    hold a region of up to 128 bytes on either side of it, clipped to the mapping, with the target's bytes, located
    right after the blamed thread's stack. -/
theorem C07_e2e_window (env : GEnv) (cfg : GCfg) (mem : Nat → UInt8) (c : CrashIn) (blamed : Nat) (ts : List TInfo)
    (d : DumpIn) (k : Nat) (t : TInfo) (hr : ReadsExactly env mem)
    (hg : gatherThreads env cfg (some c) blamed d.numWriters ts = .ok d.threads)
    (hk : ts[k]? = some t) (hb : t.tid = blamed)
    (m : Mapping) (hm : env.ms.find? (fun m => !(decide (c.ip < m.start) || decide (c.ip ≥ m.start + m.size))) = some m) :
    ∃ dt lo b, d.threads[k]? = some dt ∧ dt.window = some (lo, b) ∧
      lo = max m.start (c.ip - 128) ∧ lo + b.length = min (m.start + m.size) (c.ip + 128) ∧
      b = (List.range b.length).map (fun j => mem (lo + j)) ∧
      (⟨lo, b.length, threadPos d k + dt.stackLen⟩ : Desc) ∈ (acc3 d).blocks ∧
      At (dumpBytes d) (threadPos d k + dt.stackLen) b :=
  E2E_window_in_image env cfg mem c blamed ts d k t hr hg hk hb m hm

end Mdw
