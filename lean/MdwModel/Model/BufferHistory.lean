/-
  Histories of image-builder operations: the executable step function shared by the
  C16 theorems and the correspondence driver.
-/
import MdwModel.Model.Buffer
namespace Mdw

inductive Handle where
  | slot (s : Slot)
  | arr (a : Arr)
  deriving Repr

def Handle.ext : Handle → Nat × Nat
  | .slot s => (s.position, s.size)
  | .arr a => (a.position, a.arraySize * a.sz)

inductive Op where
  | alloc (sz : Nat)
  | allocWithVal (v : Bytes)
  | setValue (h : Nat) (v : Bytes)
  | allocArray (n sz : Nat)
  | allocFromArray (vs : List Bytes) (sz : Nat)
  | setValueAt (h : Nat) (idx : Nat) (v : Bytes)
  | writeBytes (bs : Bytes)
  | writeString (units : List Nat)
  deriving Repr

structure St where
  buf : Buf
  hs : List Handle
  deriving Repr

/-- One builder operation. `none` = the real code panics or the op is not expressible
    (wrong handle kind). The second component is the location the operation returns. -/
def step (st : St) : Op → Option (St × Option Loc)
  | .alloc sz => let (b, s) := Slot.alloc st.buf sz; some (⟨b, st.hs ++ [.slot s]⟩, some s.location)
  | .allocWithVal v => match Slot.allocWithVal st.buf v with
    | some (b, s) => some (⟨b, st.hs ++ [.slot s]⟩, some s.location)
    | none => none
  | .setValue h v => match st.hs[h]? with
    | some (.slot s) => (s.setValue st.buf v).map (fun b => (⟨b, st.hs⟩, none))
    | _ => none
  | .allocArray n sz => let (b, a) := Arr.allocArray st.buf n sz
    some (⟨b, st.hs ++ [.arr a]⟩, some a.location)
  | .allocFromArray vs sz => match Arr.allocFromArray st.buf vs sz with
    | some (b, a) => some (⟨b, st.hs ++ [.arr a]⟩, some a.location)
    | none => none
  | .setValueAt h idx v => match st.hs[h]? with
    | some (.arr a) => (a.setValueAt st.buf v idx).map (fun b => (⟨b, st.hs⟩, none))
    | _ => none
  | .writeBytes bs => let (b, a) := Arr.writeBytes st.buf bs
    some (⟨b, st.hs ++ [.arr a]⟩, some a.location)
  | .writeString units => match writeString st.buf units with
    | .ok (b, loc) => some (⟨b, st.hs ++ [.arr ⟨loc.rva, loc.size, 1⟩]⟩, some loc)
    | _ => none


end Mdw
