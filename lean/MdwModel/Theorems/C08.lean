/-
  C08 — The module list reflects the loaded ELF images
  (src/linux/sections/mappings.rs, maps_reader.rs, ptrace_dumper.rs)

  Over the model of the module-list logic (Model/Modules.lean); the ELF readers' answers are inputs
  (`Facts`; the readers themselves are C14's model), the aggregated mappings are C13's.

    C08_listed_iff            a target mapping is listed iff it is interesting, not wholly inside a caller-supplied
                              mapping, and its identifier (memory first, then file) is non-empty and not all zero;
                              the module then carries the mapping's start, size, that identifier and the name rule
    C08_list_shape            the list = the listed target mappings in (swapped) order, then the caller's, verbatim
    C08_user_verbatim         base, size, identifier of every caller-supplied mapping are what the caller gave
    C08_swap_mem / C08_entry_first   the swap keeps the set of mappings and puts the entry-point mapping first
    C08_entry_module_first    … so its module, when listed, is the first module
    C08_disjoint              modules derived from the target's map never overlap (from C13_sorted_disjoint)
    C08_no_duplicates         … and no mapping is listed twice
    C08_contained_suppressed  a mapping wholly inside a caller-supplied one is not listed
    C08_name_*                the name rule
-/
import MdwModel.Model.Modules
import MdwModel.Theorems.C13
namespace Mdw.Mod
open Mdw

variable (decode : Bytes → List Char)

theorem C08_listed_iff (users : List UserMap) (m : Mapping) (f : Facts) :
    (targetModule decode users m f).isSome ↔
      (isInteresting m = true ∧ isContainedIn m users = false ∧ idUsable (identifierOf f) = true) := by
  unfold targetModule
  by_cases h1 : isInteresting m = true <;> by_cases h2 : isContainedIn m users = true <;>
    by_cases h3 : idUsable (identifierOf f) = true <;> simp [h1, h2, h3]

theorem C08_listed_fields (users : List UserMap) (m : Mapping) (f : Facts) (md : Module)
    (h : targetModule decode users m f = some md) :
    md.base = m.start ∧ md.size = m.size % 2 ^ 32 ∧ md.ident = identifierOf f ∧
      md.name = effectivePath m (sonameOf f) := by
  unfold targetModule at h
  split at h
  · cases h
  · dsimp only at h
    split at h
    · cases h
    · cases h; simp [rawModule]

/-- the identifier: what the target's memory gives; the file only when memory gives nothing and the
    file may be opened -/
theorem C08_identifier_source (f : Facts) :
    (∀ v, f.idMem = some v → identifierOf f = v) ∧
    (f.idMem = none → f.fileOk = false → identifierOf f = []) ∧
    (f.idMem = none → f.fileOk = true → identifierOf f = f.idFile.getD []) := by
  refine ⟨?_, ?_, ?_⟩ <;> intros <;> simp_all [identifierOf]

theorem C08_list_shape (ms : List Mapping) (facts : Mapping → Facts) (us : UserMap → Option Bytes)
    (users : List UserMap) :
    moduleList decode ms facts us users =
      ms.filterMap (fun m => targetModule decode users m (facts m)) ++
      users.map (fun u => rawModule decode u.mapping u.ident (us u)) := rfl

theorem C08_user_verbatim (ms : List Mapping) (facts : Mapping → Facts) (us : UserMap → Option Bytes)
    (users : List UserMap) :
    ((moduleList decode ms facts us users).drop
        (ms.filterMap (fun m => targetModule decode users m (facts m))).length).map
      (fun md => (md.base, md.size, md.ident)) =
    users.map (fun u => (u.start, u.size % 2 ^ 32, u.ident)) := by
  unfold moduleList
  rw [List.drop_left]
  simp [rawModule, UserMap.mapping, Function.comp_def]

theorem C08_contained_suppressed (users : List UserMap) (m : Mapping) (f : Facts) (u : UserMap)
    (hu : u ∈ users) (h1 : u.start ≤ m.start) (h2 : m.start + m.size ≤ u.start + u.size) :
    targetModule decode users m f = none := by
  have : isContainedIn m users = true := by
    unfold isContainedIn
    rw [List.any_eq_true]
    exact ⟨u, hu, by simp; omega⟩
  simp [targetModule, this]

/-! ### the entry-point swap -/

theorem C08_swap_mem (ms : List Mapping) (entry : Option Nat) (x : Mapping) :
    x ∈ swapEntry ms entry → x ∈ ms := by
  unfold swapEntry
  cases entry with
  | none => exact id
  | some e =>
    simp only
    cases hidx : ms.findIdx? (fun m => m.start ≤ e && e < m.start + m.size) with
    | none => exact id
    | some i =>
      cases i with
      | zero => exact id
      | succ i =>
        simp only
        cases h0 : ms[0]? with
        | none => exact id
        | some a =>
          cases hi : ms[i + 1]? with
          | none => exact id
          | some b =>
            simp only
            intro hx
            have ha : a ∈ ms := List.mem_of_getElem? h0
            have hb : b ∈ ms := List.mem_of_getElem? hi
            rcases List.mem_or_eq_of_mem_set hx with h | h
            · rcases List.mem_or_eq_of_mem_set h with h' | h'
              · exact h'
              · exact h' ▸ hb
            · exact h ▸ ha

theorem C08_swap_length (ms : List Mapping) (entry : Option Nat) : (swapEntry ms entry).length = ms.length := by
  unfold swapEntry
  cases entry with
  | none => rfl
  | some e =>
    simp only
    cases ms.findIdx? (fun m => m.start ≤ e && e < m.start + m.size) with
    | none => rfl
    | some i =>
      cases i with
      | zero => rfl
      | succ i =>
        simp only
        cases ms[0]? <;> cases ms[i + 1]? <;> simp

/-- the first mapping whose range contains the entry point is first after the swap -/
theorem C08_entry_first (ms : List Mapping) (e i : Nat) (mi : Mapping)
    (hidx : ms.findIdx? (fun m => m.start ≤ e && e < m.start + m.size) = some i) (hmi : ms[i]? = some mi) :
    (swapEntry ms (some e)).head? = some mi := by
  unfold swapEntry
  simp only [hidx]
  cases i with
  | zero => simpa [List.head?_eq_getElem?] using hmi
  | succ i =>
    simp only
    have hlen : i + 1 < ms.length := (List.getElem?_eq_some_iff.mp hmi).1
    cases h0 : ms[0]? with
    | none =>
      have h0' : ms.length ≤ 0 := List.getElem?_eq_none_iff.mp h0
      omega
    | some a =>
      simp only [hmi]
      cases ms with
      | nil => simp at hlen
      | cons x xs => simp [List.set]

/-- … and contains it -/
theorem C08_entry_first_contains (ms : List Mapping) (e i : Nat) (mi : Mapping)
    (hidx : ms.findIdx? (fun m => m.start ≤ e && e < m.start + m.size) = some i) (hmi : ms[i]? = some mi) :
    mi.start ≤ e ∧ e < mi.start + mi.size := by
  have := List.findIdx?_eq_some_iff_getElem.mp hidx
  obtain ⟨hlt, hp, _⟩ := this
  have : ms[i] = mi := by
    have := List.getElem?_eq_some_iff.mp hmi
    exact this.2
  rw [this] at hp
  simpa using hp

/-- when the entry-point mapping is listed at all, its module is the first module -/
theorem C08_entry_module_first (ms : List Mapping) (facts : Mapping → Facts) (us : UserMap → Option Bytes)
    (users : List UserMap) (e i : Nat) (mi : Mapping) (md : Module)
    (hidx : ms.findIdx? (fun m => m.start ≤ e && e < m.start + m.size) = some i) (hmi : ms[i]? = some mi)
    (hl : targetModule decode users mi (facts mi) = some md) :
    (moduleList decode (swapEntry ms (some e)) facts us users).head? = some md := by
  have hh := C08_entry_first ms e i mi hidx hmi
  unfold moduleList
  cases hs : swapEntry ms (some e) with
  | nil => simp [hs] at hh
  | cons x xs =>
    simp only [hs, List.head?_cons, Option.some.injEq] at hh
    subst hh
    simp [List.filterMap_cons, hl]

/-! ### no overlap, no duplicates -/

def rangesDisjoint (a b : Module) : Prop := a.base + a.size ≤ b.base ∨ b.base + b.size ≤ a.base

theorem pairwise_mem {R : Mapping → Mapping → Prop} (l : List Mapping) (h : l.Pairwise R) :
    ∀ a ∈ l, ∀ b ∈ l, a ≠ b → R a b ∨ R b a := by
  induction h with
  | nil => intro a ha; cases ha
  | cons hx _ ih =>
    rename_i x xs
    intro a ha b hb hne
    rcases List.mem_cons.mp ha with rfl | ha' <;> rcases List.mem_cons.mp hb with rfl | hb'
    · exact absurd rfl hne
    · exact Or.inl (hx b hb')
    · exact Or.inr (hx a ha')
    · exact ih a ha' b hb' hne

/-- Modules derived from the target's memory map never overlap: whatever the entry point, the
    readers' answers and the caller's list. -/
theorem C08_disjoint (gate : Option Nat) (ls : List MLine) (hok : linesOk ls = true) (entry : Option Nat)
    (facts : Mapping → Facts) (users : List UserMap) (a b : Module)
    (ha : a ∈ (swapEntry (aggregate gate ls) entry).filterMap (fun m => targetModule decode users m (facts m)))
    (hb : b ∈ (swapEntry (aggregate gate ls) entry).filterMap (fun m => targetModule decode users m (facts m)))
    (hne : a ≠ b) : rangesDisjoint a b := by
  obtain ⟨ma, hma, hta⟩ := List.mem_filterMap.mp ha
  obtain ⟨mb, hmb, htb⟩ := List.mem_filterMap.mp hb
  have hma' := C08_swap_mem _ _ _ hma
  have hmb' := C08_swap_mem _ _ _ hmb
  have hmne : ma ≠ mb := by
    intro h; subst h; rw [hta] at htb; exact hne (Option.some.inj htb)
  have hp := sortedDisjoint_pairwise _ (C13_sorted_disjoint gate ls hok)
  obtain ⟨fa1, fa2, _, _⟩ := C08_listed_fields decode users ma (facts ma) a hta
  obtain ⟨fb1, fb2, _, _⟩ := C08_listed_fields decode users mb (facts mb) b htb
  have hsa : a.size ≤ ma.size := by rw [fa2]; exact Nat.mod_le _ _
  have hsb : b.size ≤ mb.size := by rw [fb2]; exact Nat.mod_le _ _
  unfold rangesDisjoint
  rcases pairwise_mem _ hp ma hma' mb hmb' hmne with h | h
  · left; have := h.1; unfold Mapping.end_ at this; omega
  · right; have := h.1; unfold Mapping.end_ at this; omega

/-- … and no mapping yields two modules: distinct list positions hold distinct modules' bases -/
theorem C08_no_duplicates (gate : Option Nat) (ls : List MLine) (hok : linesOk ls = true) (entry : Option Nat)
    (facts : Mapping → Facts) (users : List UserMap) (a b : Module)
    (ha : a ∈ (swapEntry (aggregate gate ls) entry).filterMap (fun m => targetModule decode users m (facts m)))
    (hb : b ∈ (swapEntry (aggregate gate ls) entry).filterMap (fun m => targetModule decode users m (facts m)))
    (hbase : a.base = b.base) : a = b := by
  apply Classical.byContradiction
  intro hne
  obtain ⟨ma, hma, hta⟩ := List.mem_filterMap.mp ha
  obtain ⟨mb, hmb, htb⟩ := List.mem_filterMap.mp hb
  have hma' := C08_swap_mem _ _ _ hma
  have hmb' := C08_swap_mem _ _ _ hmb
  have hmne : ma ≠ mb := by
    intro h; subst h; rw [hta] at htb; exact hne (Option.some.inj htb)
  have hp := sortedDisjoint_pairwise _ (C13_sorted_disjoint gate ls hok)
  obtain ⟨fa1, _, _, _⟩ := C08_listed_fields decode users ma (facts ma) a hta
  obtain ⟨fb1, _, _, _⟩ := C08_listed_fields decode users mb (facts mb) b htb
  rcases pairwise_mem _ hp ma hma' mb hmb' hmne with h | h
  · have := h.1; have := h.2.2; unfold Mapping.end_ at *; omega
  · have := h.1; have := h.2.2; unfold Mapping.end_ at *; omega

/-! ### the name rule -/

theorem C08_name_no_soname (m : Mapping) : effectivePath m none = m.name.getD [] := rfl

/-- an executable mapped from a non-zero offset (an archive): the SONAME is appended -/
theorem C08_name_append (m : Mapping) (p n : Bytes) (hn : m.name = some p) (hx : m.isExec = true) (ho : m.offset ≠ 0)
    (hp : p ≠ []) (hps : p.getLast? ≠ some SLASH) (hns : n.head? ≠ some SLASH) :
    effectivePath m (some n) = p ++ [SLASH] ++ n := by
  unfold effectivePath pathPush
  simp only [hn, Option.getD_some, hx, Bool.true_and, bne_iff_ne, ne_eq, ho, not_false_eq_true, decide_true, ↓reduceIte]
  have h1 : (n.head? == some SLASH) = false := by simpa using hns
  have h2 : (p.getLast? == some SLASH) = false := by simpa using hps
  have h3 : p.isEmpty = false := by cases p <;> simp_all
  simp [h1, h2, h3]

theorem stripTrailing_id (l : Bytes) (x : UInt8) (hx : x ≠ SLASH) : stripTrailing (l ++ [x]) = l ++ [x] := by
  have hne : l ++ [x] ≠ [] := by simp
  unfold stripTrailing
  split
  · rename_i h; exact absurd h hne
  · have hr : (l ++ [x]).reverse = x :: l.reverse := by simp
    have hxb : (x == SLASH) = false := by simpa using hx
    simp only [hr, List.dropWhile_cons, hxb, Bool.false_eq_true, ↓reduceIte, List.isEmpty_cons,
      List.reverse_cons, List.reverse_reverse]

theorem stripTrailing_slash (l : Bytes) (x : UInt8) (hx : x ≠ SLASH) : stripTrailing (l ++ [x] ++ [SLASH]) = l ++ [x] := by
  have hne : l ++ [x] ++ [SLASH] ≠ [] := by simp
  unfold stripTrailing
  split
  · rename_i h; exact absurd h hne
  · have hr : (l ++ [x] ++ [SLASH]).reverse = SLASH :: x :: l.reverse := by simp
    have hxb : (x == SLASH) = false := by simpa using hx
    simp only [hr, List.dropWhile_cons, BEq.rfl, ↓reduceIte, hxb, Bool.false_eq_true, List.isEmpty_cons,
      List.reverse_cons, List.reverse_reverse]

theorem afterLastSlash_append (pre base : Bytes) (hb : SLASH ∉ base) :
    afterLastSlash (pre ++ [SLASH] ++ base) = base := by
  unfold afterLastSlash
  have hr : (pre ++ [SLASH] ++ base).reverse = base.reverse ++ (SLASH :: pre.reverse) := by simp
  rw [hr, List.takeWhile_append_of_pos]
  · simp
  · intro a ha
    have : a ∈ base := List.mem_reverse.mp ha
    have : a ≠ SLASH := fun h => hb (h ▸ this)
    simpa using this

/-- otherwise the SONAME replaces the last component of the mapped path -/
theorem C08_name_replace (m : Mapping) (dir : Bytes) (d b : UInt8) (base n : Bytes)
    (hn : m.name = some (dir ++ [d] ++ [SLASH] ++ (base ++ [b])))
    (hnx : (m.isExec && m.offset != 0) = false)
    (hd : d ≠ SLASH) (hb : b ≠ SLASH) (hbase : SLASH ∉ base) (hdots : base ++ [b] ≠ [46, 46])
    (hns : n.head? ≠ some SLASH) :
    effectivePath m (some n) = dir ++ [d] ++ [SLASH] ++ n := by
  have hbb : SLASH ∉ base ++ [b] := by
    intro h; rcases List.mem_append.mp h with h | h
    · exact hbase h
    · simp at h; exact hb h.symm
  have hp : dir ++ [d] ++ [SLASH] ++ (base ++ [b]) = (dir ++ [d] ++ [SLASH] ++ base) ++ [b] := by simp
  have hstrip : stripTrailing (dir ++ [d] ++ [SLASH] ++ (base ++ [b])) = dir ++ [d] ++ [SLASH] ++ (base ++ [b]) := by
    rw [hp]; exact stripTrailing_id _ b hb
  have hafter : afterLastSlash (dir ++ [d] ++ [SLASH] ++ (base ++ [b])) = base ++ [b] :=
    afterLastSlash_append (dir ++ [d]) (base ++ [b]) hbb
  have hfile : fileName (dir ++ [d] ++ [SLASH] ++ (base ++ [b])) = some (base ++ [b]) := by
    unfold fileName
    simp only [hstrip, hafter]
    have : (base ++ [b]).isEmpty = false := by simp
    have h2 : (base ++ [b] == [46, 46]) = false := by simpa using hdots
    simp [h2]
  have hpop : pathPop (dir ++ [d] ++ [SLASH] ++ (base ++ [b])) = dir ++ [d] := by
    unfold pathPop
    simp only [hstrip, hafter]
    have hlen : (dir ++ [d] ++ [SLASH] ++ (base ++ [b])).length - (base ++ [b]).length = (dir ++ [d] ++ [SLASH]).length := by
      simp only [List.length_append, List.length_cons, List.length_nil]; omega
    rw [hlen]
    have htake : (dir ++ [d] ++ [SLASH] ++ (base ++ [b])).take (dir ++ [d] ++ [SLASH]).length = dir ++ [d] ++ [SLASH] := by
      rw [List.take_left']; rfl
    rw [htake]
    have : ¬ (dir ++ [d] ++ [SLASH]).length ≤ 1 := by simp
    simp only [this, ↓reduceIte]
    exact stripTrailing_slash dir d hd
  unfold effectivePath setFileName
  simp only [hn, Option.getD_some, hnx, Bool.false_eq_true, ↓reduceIte, hfile, Option.isSome_some, hpop]
  unfold pathPush
  have h1 : (n.head? == some SLASH) = false := by simpa using hns
  have h2 : ((dir ++ [d]).getLast? == some SLASH) = false := by simpa using hd
  simp [h1, hd]

-- the rule on concrete names (byte strings)
-- "/usr/lib/libfoo.so.1.2" + SONAME "libfoo.so.1" → "/usr/lib/libfoo.so.1"
example : effectivePath ⟨0x1000, 0x2000, 0x1000, 0x3000, 0, 5, some [47, 117, 115, 114, 47, 108, 105, 98, 47, 108, 105, 98, 102, 111, 111, 46, 115, 111, 46, 49, 46, 50]⟩
    (some [108, 105, 98, 102, 111, 111, 46, 115, 111, 46, 49]) = [47, 117, 115, 114, 47, 108, 105, 98, 47, 108, 105, 98, 102, 111, 111, 46, 115, 111, 46, 49] := by decide
-- "/data/app.apk" executable at offset 0x1000 + SONAME "libname.so" → "/data/app.apk/libname.so"
example : effectivePath ⟨0x1000, 0x2000, 0x1000, 0x3000, 0x1000, 5, some [47, 100, 97, 116, 97, 47, 97, 112, 112, 46, 97, 112, 107]⟩
    (some [108, 105, 98, 110, 97, 109, 101, 46, 115, 111]) = [47, 100, 97, 116, 97, 47, 97, 112, 112, 46, 97, 112, 107, 47, 108, 105, 98, 110, 97, 109, 101, 46, 115, 111] := by decide
-- "linux-gate.so" + SONAME "linux-vdso.so.1" → "linux-vdso.so.1"
example : effectivePath ⟨0x1000, 0x2000, 0x1000, 0x3000, 0, 5, some [108, 105, 110, 117, 120, 45, 103, 97, 116, 101, 46, 115, 111]⟩
    (some [108, 105, 110, 117, 120, 45, 118, 100, 115, 111, 46, 115, 111, 46, 49]) = [108, 105, 110, 117, 120, 45, 118, 100, 115, 111, 46, 115, 111, 46, 49] := by decide
-- "/libroot.so" + SONAME "x" → "/x"
example : effectivePath ⟨0x1000, 0x2000, 0x1000, 0x3000, 0, 5, some [47, 108, 105, 98, 114, 111, 111, 116, 46, 115, 111]⟩
    (some [120]) = [47, 120] := by decide

end Mdw.Mod
