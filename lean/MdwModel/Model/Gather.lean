/-
  The gathering step of `fill_thread_stack` (src/linux/sections/thread_list_stream.rs) as one function, composed from
  the models of its parts in the order the code runs them: `get_stack_info`, the shortening under a size limit,
  `copy_from_process` (a parameter: the target's memory), the unreferenced-stack rule, `sanitize_stack_copy`.
  Evaluated by the driver on every live dump (Driver/LiveProps.lean, `gatherVerdict`), reasoned about in
  Theorems/EndToEnd.lean.
-/
import MdwModel.Model.Stack
import MdwModel.Model.Dump
namespace Mdw

/-- what the gathering of one thread's stack depends on -/
structure GEnv where
  ms : List Mapping
  page : Nat
  /-- `copy_from_process(addr, len)`: the bytes, or an error -/
  read : Nat → Nat → Option Bytes

structure GCfg where
  limit : Option Nat
  sanitize : Bool
  skip : Bool
  /-- system range of the principal mapping, once resolved -/
  principal : Option (Nat × Nat)

/-- `fill_thread_stack` for the thread at list position `idx` of `n`, with the image at `currPos` when the limit is
    evaluated: `.ok none` = no stack recorded, `.ok (some (start, bytes))` = recorded, `.err` = the dump fails -/
def gatherStack (env : GEnv) (cfg : GCfg) (idx n currPos : Nat) (isCrash : Bool) (sp ip : Nat) : Outcome (Option (Nat × Bytes)) :=
  match getStackInfo env.ms env.page sp with
  | .ok (valid, len) =>
    let r := capRegion valid len sp (maxStackLen cfg.limit (extraLimit cfg.limit n currPos) idx isCrash)
    match env.read r.1 r.2 with
    | none => .err "CopyFromProcessError"
    | some bytes =>
      if !includeStack cfg.skip cfg.principal ip bytes (sp - r.1) then .ok none
      else if cfg.sanitize then
        match sanitize env.ms bytes sp (sp - r.1) with
        | .ok b => .ok (some (r.1, b))
        | .err c => .err c
        | .panic w => .panic w
        | .fuelOut => .fuelOut
      else .ok (some (r.1, bytes))
  | _ => .ok none

/-- what ptrace reported for one thread: id, stack and instruction pointer, and the serialised CONTEXT its registers
    are converted to (`fill_cpu_context`; the conversion itself is the C04 model) -/
structure TInfo where
  tid : Nat
  sp : Nat
  ip : Nat
  ctx : Bytes

/-- the crash context supplied with the request: its stack and instruction pointer and the serialised CONTEXT its
    registers are converted to -/
structure CrashIn where
  sp : Nat
  ip : Nat
  ctx : Bytes

/-- the memory around the crash instruction pointer: the window clipped to the first mapping that contains it, read
    from the target; nothing when no mapping contains it -/
def gatherWindow (env : GEnv) (ip : Nat) : Outcome (Option (Nat × Bytes)) :=
  match ipWindow env.ms ip with
  | none => .ok none
  | some (lo, len) =>
    match env.read lo len with
    | none => .err "CopyFromProcessError"
    | some b => .ok (some (lo, b))

/-- one iteration of the loop of `thread_list_stream::write`: the thread of the crash context takes its stack pointer,
    instruction pointer and registers from the crash context, is never shortened and gets the instruction-pointer
    window; every other thread takes them from ptrace and is shortened by position -/
def gatherThread (env : GEnv) (cfg : GCfg) (crash : Option CrashIn) (blamed : Nat) (idx n currPos : Nat) (t : TInfo) :
    Outcome DThread :=
  match crash with
  | some c =>
    if t.tid = blamed then
      match gatherStack env cfg idx n currPos true c.sp c.ip with
      | .ok stack =>
        match gatherWindow env c.ip with
        | .ok window => .ok { tid := t.tid, sp := c.sp, stack := stack, window := window, ctx := c.ctx, ip := c.ip }
        | .err e => .err e
        | .panic w => .panic w
        | .fuelOut => .fuelOut
      | .err e => .err e
      | .panic w => .panic w
      | .fuelOut => .fuelOut
    else
      match gatherStack env cfg idx n currPos false t.sp t.ip with
      | .ok stack => .ok { tid := t.tid, sp := t.sp, stack := stack, window := none, ctx := t.ctx, ip := t.ip }
      | .err e => .err e
      | .panic w => .panic w
      | .fuelOut => .fuelOut
  | none =>
    match gatherStack env cfg idx n currPos false t.sp t.ip with
    | .ok stack => .ok { tid := t.tid, sp := t.sp, stack := stack, window := none, ctx := t.ctx, ip := t.ip }
    | .err e => .err e
    | .panic w => .panic w
    | .fuelOut => .fuelOut

/-- the loop: threads in list order, the first failure aborts -/
def gatherThreadsFrom (env : GEnv) (cfg : GCfg) (crash : Option CrashIn) (blamed : Nat) (n currPos : Nat) :
    Nat → List TInfo → Outcome (List DThread)
  | _, [] => .ok []
  | idx, t :: ts =>
    match gatherThread env cfg crash blamed idx n currPos t with
    | .ok d =>
      match gatherThreadsFrom env cfg crash blamed n currPos (idx + 1) ts with
      | .ok ds => .ok (d :: ds)
      | .err e => .err e
      | .panic w => .panic w
      | .fuelOut => .fuelOut
    | .err e => .err e
    | .panic w => .panic w
    | .fuelOut => .fuelOut

/-- `thread_list_stream::write`'s gathering for a dump with `numWriters` directory slots: the size-limit decision is
    taken with the image at header + directory + count + record array -/
def gatherThreads (env : GEnv) (cfg : GCfg) (crash : Option CrashIn) (blamed : Nat) (numWriters : Nat) (ts : List TInfo) :
    Outcome (List DThread) :=
  gatherThreadsFrom env cfg crash blamed ts.length (32 + 12 * numWriters + 4 + 48 * ts.length) 0 ts

/-- the order in which `gatherStack` runs its steps (compared with the regenerated order of the Rust function's
    steps, `Src.fillThreadStackSteps`, by `gather_order_agrees` in Theorems/EndToEnd.lean): the stack pointer's offset
    is taken in the copy actually made, i.e. after the shortening; the rule is evaluated before sanitization; only a
    stack that passed the rule is written and registered as a memory block -/
def gatherSteps : List String :=
  ["get_stack_info", "shorten", "copy_from_process", "offset_in_copy", "skip_rule", "sanitize", "write", "register_block"]

end Mdw
