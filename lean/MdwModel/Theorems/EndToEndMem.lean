/-
  The reader of the gathering model instantiated with the reader model of C17 (src/linux/mem_reader.rs over a paged
  target memory): `copy_from_process` = a fresh `MemReader`, which tries the vectored read, then /proc/<pid>/mem, then
  PTRACE_PEEKDATA, and keeps the first that succeeds. Where the pages are readable it returns exactly the target's
  bytes (C17), which discharges the reader hypothesis of the end-to-end theorems: the statement for a thread whose
  stack lies in readable memory then has no assumption about the reader left.
-/
import MdwModel.Theorems.EndToEnd
import MdwModel.Theorems.C17
namespace Mdw

theorem allReadable_sub (m : TMem) (lo len a n : Nat) (h : m.allReadable lo len = true) (h1 : lo ≤ a) (h2 : a + n ≤ lo + len) :
    m.allReadable a n = true := by
  unfold TMem.allReadable at *
  rw [List.all_eq_true] at *
  intro i hi
  have hi' : i < n := by simpa using hi
  have := h (a - lo + i) (by simp; omega)
  have e : lo + (a - lo + i) = a + i := by omega
  rw [e] at this; exact this

/-- in readable memory the copy is exactly the target's bytes -/
theorem copy_readable (m : TMem) (src n : Nat) (hn : 0 < n) (h : m.allReadable src n = true) :
    copyFromProcess m src n = some (m.bytes src n) := by
  unfold copyFromProcess
  have : ¬ n = 0 := by omega
  simp only [this, if_false]
  rw [C17_vmem_readable m src n hn h]

/-- **The reader hypothesis, discharged.** -/
theorem copy_reads_exactly_in (m : TMem) (ms : List Mapping) (page lo len : Nat) (h : m.allReadable lo len = true) :
    ReadsExactlyIn ⟨ms, page, copyFromProcess m⟩ m.byte lo (lo + len) := by
  intro a n bs h1 h2 hrd
  simp only at hrd
  by_cases hn : n = 0
  · simp [copyFromProcess, hn] at hrd
  · rw [copy_readable m a n (by omega) (allReadable_sub m lo len a n h h1 h2)] at hrd
    injection hrd with hrd
    rw [← hrd]; rfl

/-- **End to end over the paged-memory reader (C06 + C17 + C12 + C20 composed).** For a target memory `mem` whose
    pages under the mapping that holds the stack pointer are readable: whatever the configuration, a recorded stack
    contains the stack pointer, lies in the mapping, holds the target's bytes when not sanitized, reaches the mapping's
    end unless shortened, and is shortened only for a late thread under a limit, never the crash-context thread. No
    assumption about the reader remains. -/
theorem E2E_stack_readable (mem : TMem) (ms : List Mapping) (page : Nat) (cfg : GCfg) (idx n currPos : Nat) (isCrash : Bool)
    (sp ip : Nat) (m : Mapping) (start : Nat) (bytes : Bytes)
    (hp : 0 < page) (hw : HullOk ms) (hrd : mem.allReadable m.start m.size = true)
    (hf : findMapping ms (sp - sp % page) = some m) (hs : mayBeStack (some m) = true) (hsp : sp < m.start + m.size)
    (hsan : cfg.sanitize = true → WfMaps ms ∧ sp + 7 < 2 ^ 64)
    (hg : gatherStack ⟨ms, page, copyFromProcess mem⟩ cfg idx n currPos isCrash sp ip = .ok (some (start, bytes))) :
    start ≤ sp ∧ sp < start + bytes.length ∧ start + bytes.length ≤ m.start + m.size ∧
    (cfg.sanitize = false → ∀ k, k < bytes.length → bytes[k]? = some (mem.byte (start + k))) ∧
    (maxStackLen cfg.limit (extraLimit cfg.limit n currPos) idx isCrash = none →
      start + bytes.length = m.start + m.size ∧ (start = sp - sp % page ∨ start = m.start)) ∧
    (start + bytes.length < m.start + m.size →
      cfg.limit.isSome ∧ LIMIT_BASE_THREAD_COUNT ≤ idx ∧ isCrash = false ∧ bytes.length ≤ LIMIT_MAX_EXTRA_THREAD_STACK_LEN) := by
  obtain ⟨h1, h2, h3, h4, _, h6, h7⟩ := E2E_stack_contains_sp ⟨ms, page, copyFromProcess mem⟩ cfg mem.byte idx n currPos isCrash sp ip m
    start bytes hp hw (copy_reads_exactly_in mem ms page m.start m.size hrd) hf hs hsp hsan hg
  exact ⟨h1, h2, h3, h4, h6, h7⟩

/-- … and such a stack *is* recorded when nothing excludes it: in readable memory the gathering succeeds with a region
    (no skipping, no sanitizing). -/
theorem E2E_stack_recorded (mem : TMem) (ms : List Mapping) (page : Nat) (limit : Option Nat) (idx n currPos : Nat) (isCrash : Bool)
    (sp ip : Nat) (m : Mapping)
    (hp : 0 < page) (hw : HullOk ms) (hrd : mem.allReadable m.start m.size = true)
    (hf : findMapping ms (sp - sp % page) = some m) (hs : mayBeStack (some m) = true) (hsp : sp < m.start + m.size) :
    ∃ start bytes, gatherStack ⟨ms, page, copyFromProcess mem⟩ ⟨limit, false, false, none⟩ idx n currPos isCrash sp ip =
      .ok (some (start, bytes)) := by
  obtain ⟨v, l, hgs, hv1, hv2, hv3, hv4⟩ := C06_mapped ms page sp m hp hw hf hs hsp
  have hms := (findMapping_some hf).2.1
  have hvlo : m.start ≤ v := by rcases hv4 with h | h <;> omega
  -- the (possibly shortened) region: non-empty and inside the mapping
  have hreg : m.start ≤ (capRegion v l sp (maxStackLen limit (extraLimit limit n currPos) idx isCrash)).1 ∧
      (capRegion v l sp (maxStackLen limit (extraLimit limit n currPos) idx isCrash)).1 +
        (capRegion v l sp (maxStackLen limit (extraLimit limit n currPos) idx isCrash)).2 ≤ m.start + m.size ∧
      0 < (capRegion v l sp (maxStackLen limit (extraLimit limit n currPos) idx isCrash)).2 := by
    cases hcap : maxStackLen limit (extraLimit limit n currPos) idx isCrash with
    | none => simp only [capRegion]; omega
    | some c =>
      obtain ⟨hc2048, _, _, _, _, _⟩ := C06_only_extra_threads_shortened _ _ _ _ _ _ hcap
      obtain ⟨c1, c2, _, _, c5, c6, _⟩ := C06_cap v l sp c (by omega) ⟨hv1, hv2⟩
      omega
  refine ⟨(capRegion v l sp (maxStackLen limit (extraLimit limit n currPos) idx isCrash)).1,
    mem.bytes (capRegion v l sp (maxStackLen limit (extraLimit limit n currPos) idx isCrash)).1
      (capRegion v l sp (maxStackLen limit (extraLimit limit n currPos) idx isCrash)).2, ?_⟩
  unfold gatherStack
  simp only [hgs]
  rw [copy_readable mem _ _ hreg.2.2 (allReadable_sub mem m.start m.size _ _ hrd hreg.1 hreg.2.1)]
  simp [includeStack]

end Mdw
