/-
  Operational models of the simpler stream writers — sequences of builder operations of src/mem_writer.rs, as the
  Rust code performs them — and the proof that each produces exactly the stage of the closed-form image model
  (Model/Dump.lean): the bytes appended, and the directory entry (type, size, rva) it returns.

    Refine_memory_list      memory_list_stream::write      = stMemoryList
    Refine_mem_info         memory_info_list_stream::write = stMemInfo
    Refine_raw              MinidumpWriter::write_file     = stRaw (some ·)
    Refine_soft_errors      write_soft_errors              = stRaw (some ·)
    Refine_app_memory       app_memory::write              = stApp
    Refine_exception        exception_stream::write        = stException
    Refine_sysinfo          systeminfo_stream::write       = stSysInfo
  (thread names: C15_image_refines in Theorems/C15.lean.)  Each holds for every buffer state and every content, under
  the explicit guard that the image stays below 4 GiB (positions are stored as u32).
-/
import MdwModel.Theorems.Image
import MdwModel.Theorems.C16
namespace Mdw

/-- an accumulator as the buffer the writers see: header, directory and what has been appended -/
def Acc.bufOf (pre : Bytes) (a : Acc) : Buf := ⟨pre ++ a.bytes⟩

-- memory list ----------------------------------------------------------------------------------------------------

/-- `memory_list_stream::write`: `alloc_with_val(count)`, `alloc_from_array(blocks)`, size summed -/
def opMemoryList (b : Buf) (blocks : List Desc) : Option (Buf × DirEnt) :=
  match Slot.allocWithVal b (le 4 blocks.length) with
  | none => none
  | some (b1, hdr) =>
    match Arr.allocFromArray b1 (blocks.map serDesc) 16 with
    | none => none
    | some (b2, arr) => some (b2, ⟨ST_MEMORY_LIST, hdr.location.size + arr.location.size, hdr.location.rva⟩)

theorem Refine_memory_list (b : Buf) (blocks : List Desc) (hb : b.len + 4 + 16 * blocks.length < 2 ^ 32) :
    opMemoryList b blocks = some (⟨b.inner ++ memoryListStream blocks⟩, ⟨ST_MEMORY_LIST, 4 + 16 * blocks.length, b.len⟩) := by
  obtain ⟨b1, hdr, h1, hb1, hl1⟩ := C16_allocWithVal b (le 4 blocks.length) (by simp; omega)
  have hlen1 : b1.len = b.len + 4 := by simp [Buf.len, hb1]
  obtain ⟨b2, arr, h2, hb2, hl2⟩ := C16_allocFromArray b1 (blocks.map serDesc) 16
    (by intro v hv; simp only [List.mem_map] at hv; obtain ⟨d, _, rfl⟩ := hv; simp [serDesc])
    (by simp [hlen1]; omega)
  simp only [opMemoryList, h1, h2, hl1, hl2]
  have hfl : (blocks.map serDesc).flatten = blocks.flatMap serDesc := by simp [List.flatMap]
  congr 2
  · cases b2; simp only [Buf.mk.injEq]; simp at hb2; rw [hb2, hb1, hfl]; simp [memoryListStream, List.append_assoc]
  · simp; omega

-- memory info ----------------------------------------------------------------------------------------------------

def opMemInfo (b : Buf) (l : List MemInfoRec) : Option (Buf × DirEnt) :=
  match Slot.allocWithVal b (le 4 16 ++ le 4 48 ++ le 8 l.length) with
  | none => none
  | some (b1, hdr) =>
    match Arr.allocFromArray b1 (l.map serMemInfo) 48 with
    | none => none
    | some (b2, arr) => some (b2, ⟨ST_MEMORY_INFO_LIST, hdr.location.size + arr.location.size, hdr.location.rva⟩)

theorem Refine_mem_info (b : Buf) (l : List MemInfoRec) (hb : b.len + 16 + 48 * l.length < 2 ^ 32) :
    opMemInfo b l = some (⟨b.inner ++ memInfoBody l⟩, ⟨ST_MEMORY_INFO_LIST, 16 + 48 * l.length, b.len⟩) := by
  obtain ⟨b1, hdr, h1, hb1, hl1⟩ := C16_allocWithVal b (le 4 16 ++ le 4 48 ++ le 8 l.length) (by simp; omega)
  have hlen1 : b1.len = b.len + 16 := by simp [Buf.len, hb1]
  obtain ⟨b2, arr, h2, hb2, hl2⟩ := C16_allocFromArray b1 (l.map serMemInfo) 48
    (by intro v hv; simp only [List.mem_map] at hv; obtain ⟨d, _, rfl⟩ := hv; simp [serMemInfo])
    (by simp [hlen1]; omega)
  simp only [opMemInfo, h1, h2, hl1, hl2]
  have hfl : (l.map serMemInfo).flatten = l.flatMap serMemInfo := by simp [List.flatMap]
  congr 2
  · cases b2; simp only [Buf.mk.injEq]; simp at hb2; rw [hb2, hb1, hfl]; simp [memInfoBody, List.append_assoc]
  · simp <;> omega

-- raw files, soft errors -----------------------------------------------------------------------------------------

/-- `write_file` after a successful read / `write_soft_errors`: `write_bytes(content)` -/
def opRaw (ty : Nat) (b : Buf) (content : Bytes) : Buf × DirEnt :=
  let (b1, arr) := Arr.writeBytes b content
  (b1, ⟨ty, arr.location.size, arr.location.rva⟩)

theorem Refine_raw (ty : Nat) (b : Buf) (content : Bytes) (hb : b.len + content.length < 2 ^ 32) :
    opRaw ty b content = (⟨b.inner ++ content⟩, ⟨ty, content.length, b.len⟩) := by
  obtain ⟨h1, h2⟩ := C16_writeBytes b content hb
  simp only [opRaw]
  cases hw : Arr.writeBytes b content with
  | mk b1 arr =>
    rw [hw] at h1 h2
    simp only at h1 h2
    simp only [h2]
    cases b1; simp at h1; simp [h1]

theorem Refine_soft_errors (b : Buf) (json : Bytes) (hb : b.len + json.length < 2 ^ 32) :
    opRaw ST_MOZ_SOFT_ERRORS b json = (⟨b.inner ++ json⟩, ⟨ST_MOZ_SOFT_ERRORS, json.length, b.len⟩) :=
  Refine_raw _ b json hb

-- application memory ---------------------------------------------------------------------------------------------

/-- `app_memory::write`: one `write_bytes` per region, each registering a block -/
def opApp : Buf → List (Nat × Bytes) → Buf × List Desc
  | b, [] => (b, [])
  | b, (a, bs) :: r =>
    let (b1, arr) := Arr.writeBytes b bs
    let (b2, rest) := opApp b1 r
    (b2, ⟨a, arr.location.size, arr.location.rva⟩ :: rest)

theorem Refine_app_memory (b : Buf) (app : List (Nat × Bytes)) (hb : b.len + (appBlobs app).length < 2 ^ 32) :
    opApp b app = (⟨b.inner ++ appBlobs app⟩, appBlocksAt b.len app) := by
  induction app generalizing b with
  | nil => simp [opApp, appBlobs, appBlocksAt]
  | cons x r ih =>
    obtain ⟨a, bs⟩ := x
    have hlen : (appBlobs ((a, bs) :: r)).length = bs.length + (appBlobs r).length := by simp [appBlobs]
    rw [hlen] at hb
    obtain ⟨h1, h2⟩ := C16_writeBytes b bs (by omega)
    simp only [opApp]
    cases hw : Arr.writeBytes b bs with
    | mk b1 arr =>
      rw [hw] at h1 h2
      simp only at h1 h2
      have hb1 : b1 = ⟨b.inner ++ bs⟩ := by cases b1; simp at h1; simp [h1]
      have hlen1 : b1.len = b.len + bs.length := by rw [hb1]; simp [Buf.len]
      have := ih b1 (by rw [hlen1]; omega)
      rw [this, h2, hlen1, hb1]
      simp [appBlobs, appBlocksAt, List.append_assoc]

-- exception ------------------------------------------------------------------------------------------------------

/-- `exception_stream::write`: when a crash context is supplied and the blamed thread was not listed, the supplied
    context is written first; then the stream record -/
def opException (b : Buf) (crash : Option CrashInfo) (blamed : Nat) (ctc : CTC) (standalone : Bytes) : Option (Buf × DirEnt) :=
  let needs := crash.isSome && ctc == CTC.none
  let pre : Option (Buf × (Nat × Nat)) :=
    if needs then
      match Slot.allocWithVal b standalone with
      | some (b1, s) => some (b1, (s.location.size, s.location.rva))
      | none => none
    else some (b, (0, 0))
  match pre with
  | none => none
  | some (b1, loc) =>
    match Slot.allocWithVal b1 (exceptionStream crash blamed ctc loc) with
    | none => none
    | some (b2, s) => some (b2, ⟨ST_EXCEPTION, s.location.size, s.location.rva⟩)

theorem exceptionStream_length (c : Option CrashInfo) (bl : Nat) (ctc : CTC) (loc : Nat × Nat) :
    (exceptionStream c bl ctc loc).length = 168 := by
  unfold exceptionStream; simp only [serExc_length]

/-- the location passed for the stand-alone context only matters when it is written -/
theorem exceptionStream_loc_irrelevant (c : Option CrashInfo) (bl : Nat) (ctc : CTC) (l1 l2 : Nat × Nat)
    (h : (c.isSome && ctc == CTC.none) = false) : exceptionStream c bl ctc l1 = exceptionStream c bl ctc l2 := by
  unfold exceptionStream excFields
  cases ctc with
  | none => cases c with
    | none => rfl
    | some x => simp at h
  | crashContext l => rfl
  | crashContextPlusAddress l a => rfl

theorem Refine_exception (d : DumpIn) (a : Acc) (pre : Bytes) (hpre : pre.length = a.base)
    (hb : a.pos + (if needsStandalone d then d.standalone.length else 0) + 168 < 2 ^ 32) :
    opException (a.bufOf pre) d.crash d.blamed (ctcOf d) d.standalone =
      some ((stException d a).bufOf pre, ⟨ST_EXCEPTION, 168, a.pos + (if needsStandalone d then d.standalone.length else 0)⟩) := by
  have hlenb : (a.bufOf pre).len = a.pos := by simp [Acc.bufOf, Buf.len, Acc.pos, hpre]
  unfold opException
  by_cases hn : needsStandalone d = true
  · have hn' : (d.crash.isSome && ctcOf d == CTC.none) = true := hn
    simp only [hn, if_true] at hb
    obtain ⟨b1, s, h1, hb1, hl1⟩ := C16_allocWithVal (a.bufOf pre) d.standalone (by rw [hlenb]; omega)
    have hlen1 : b1.len = a.pos + d.standalone.length := by simp [Buf.len, hb1, Acc.bufOf, Acc.pos, hpre]; omega
    obtain ⟨b2, s2, h2, hb2, hl2⟩ := C16_allocWithVal b1
      (exceptionStream d.crash d.blamed (ctcOf d) (d.standalone.length, a.pos))
      (by rw [hlen1, exceptionStream_length]; omega)
    simp only [hn', if_true, h1, hl1, hlenb, h2, hl2, exceptionStream_length, hlen1, hn]
    congr 2
    cases b2; simp only [Acc.bufOf, Buf.mk.injEq]; simp at hb2
    rw [hb2, hb1]; simp [stException, hn, Acc.add, Acc.publish, Acc.bufOf, List.append_assoc]
  · have hn0 : needsStandalone d = false := by cases h : needsStandalone d <;> simp_all
    have hn' : (d.crash.isSome && ctcOf d == CTC.none) = false := hn0
    simp only [hn0, Bool.false_eq_true, if_false, Nat.add_zero] at hb
    obtain ⟨b2, s2, h2, hb2, hl2⟩ := C16_allocWithVal (a.bufOf pre)
      (exceptionStream d.crash d.blamed (ctcOf d) (0, 0)) (by rw [hlenb, exceptionStream_length]; omega)
    simp only [hn', Bool.false_eq_true, if_false, h2, hl2, exceptionStream_length, hlenb, hn0]
    congr 2
    cases b2; simp only [Acc.bufOf, Buf.mk.injEq]; simp at hb2
    rw [hb2, exceptionStream_loc_irrelevant _ _ _ (0, 0) (d.standalone.length, a.pos) hn']
    simp [stException, hn0, Acc.add, Acc.publish, Acc.bufOf, List.append_assoc]


-- system info ----------------------------------------------------------------------------------------------------

/-- `systeminfo_stream::write`: reserve the record, write the OS version string, then fill the record (which
    carries the string's offset) -/
def opSysInfo (b : Buf) (sys : DSysInfo) : Option (Buf × DirEnt) :=
  let (b1, slot) := Slot.alloc b 56
  match writeString b1 sys.os with
  | .ok (b2, loc) =>
    match slot.setValue b2 (serSysInfo sys loc.rva) with
    | some b3 => some (b3, ⟨ST_SYSTEM_INFO, slot.location.size, slot.location.rva⟩)
    | none => none
  | _ => none

theorem serSysInfo_length (sys : DSysInfo) (r : Nat) : (serSysInfo sys r).length = 56 := by
  simp [serSysInfo, padTo_length]

theorem Refine_sysinfo (b : Buf) (sys : DSysInfo) (hb : b.len + 56 + 4 + 2 * sys.os.length < 2 ^ 32) :
    opSysInfo b sys = some (⟨b.inner ++ (serSysInfo sys (b.len + 56) ++ mdStr sys.os)⟩, ⟨ST_SYSTEM_INFO, 56, b.len⟩) := by
  obtain ⟨ha1, ha2⟩ := C16_alloc b 56 (by omega)
  unfold opSysInfo
  cases hal : Slot.alloc b 56 with
  | mk b1 slot =>
    rw [hal] at ha1 ha2
    simp only at ha1 ha2
    have hb1 : b1 = ⟨b.inner ++ zeros 56⟩ := by cases b1; simp at ha1; simp [ha1]
    have hlen1 : b1.len = b.len + 56 := by rw [hb1]; simp [Buf.len, zeros]
    have hws := C16_writeString b1 sys.os (by rw [hlen1]; omega)
    have hslot : slot.position = b.len ∧ slot.size = 56 := by
      have e1 : asU32 b.inner.length = b.inner.length := asU32_of_lt (by simp [Buf.len] at hb; omega)
      have : Slot.alloc b 56 = (⟨b.inner ++ zeros 56⟩, ⟨asU32 b.inner.length, 56⟩) := by simp [Slot.alloc, Buf.reserve]
      rw [this] at hal
      injection hal with _ hs
      rw [← hs]; simp [e1, Buf.len]
    simp only [hws]
    obtain ⟨b3, hset, _, hinner, _, _⟩ := C16_setValue_frame
      ⟨b1.inner ++ le 4 (2 * sys.os.length) ++ units16LE sys.os⟩ slot (serSysInfo sys b1.len)
      (by rw [serSysInfo_length, hslot.2]) (by
        rw [hslot.1, hslot.2, hb1]; simp [Buf.len, zeros])
    simp only [hset, ha2]
    congr 2
    cases b3; simp only [Buf.mk.injEq]; simp only at hinner
    rw [hinner, hslot.1, serSysInfo_length, hlen1, hb1]
    simp only [Buf.len, List.append_assoc]
    rw [List.take_left' rfl]
    have : List.drop (b.inner.length + 56) (b.inner ++ (zeros 56 ++ (le 4 (2 * sys.os.length) ++ units16LE sys.os))) =
        le 4 (2 * sys.os.length) ++ units16LE sys.os := by
      rw [← List.append_assoc, List.drop_left' (by simp [zeros])]
    rw [this]; simp [mdStr]

end Mdw
