/- The names of the linker debug stream: each object's name is read through *its own* `l_name`, and an object whose
   `l_name` is NULL has the empty name — it does not inherit anything from the object before it. In the model the name
   is a function of the entry alone; that the code starts every entry with a fresh, empty name is a regenerated source
   fact (`Src.linkNameFresh`; false under the seed C18_r18, which hoists the buffer out of the loop). -/
import MdwModel.Model.Info
import MdwModel.Generated.Source
namespace Mdw

theorem LinkName_source_agrees : Src.linkNameFresh = none ∨ Src.linkNameFresh = some true := by decide

/-- the name recorded for one object: empty for a NULL pointer, otherwise what the reader returns for the string at
    `l_name` (256 bytes cut at the first NUL and decoded: the reader's business) — or the request's linker step fails -/
def linkName (rd : Nat → Option Bytes) (lm : LinkMap) : Option Bytes :=
  if lm.name = 0 then some [] else rd lm.name

/-- the names of all objects, in list order; the first unreadable name fails the step -/
def linkNames (rd : Nat → Option Bytes) : List LinkMap → Option (List Bytes)
  | [] => some []
  | lm :: rest =>
    match linkName rd lm, linkNames rd rest with
    | some n, some ns => some (n :: ns)
    | _, _ => none

theorem LinkName_null (rd : Nat → Option Bytes) (lm : LinkMap) (h : lm.name = 0) : linkName rd lm = some [] := by
  simp [linkName, h]

/-- position by position: the j-th name is the j-th object's, whatever the objects before it are called -/
theorem LinkName_get (rd : Nat → Option Bytes) (lms : List LinkMap) (ns : List Bytes) (h : linkNames rd lms = some ns) :
    ns.length = lms.length ∧ ∀ (j : Nat) (lm : LinkMap), lms[j]? = some lm → (ns[j]?) = linkName rd lm := by
  induction lms generalizing ns with
  | nil =>
    simp only [linkNames, Option.some.injEq] at h
    subst h
    exact ⟨rfl, fun j lm hj => by simp at hj⟩
  | cons x rest ih =>
    simp only [linkNames] at h
    cases hx : linkName rd x with
    | none => simp [hx] at h
    | some n =>
      cases hr : linkNames rd rest with
      | none => simp [hx, hr] at h
      | some ns' =>
        simp only [hx, hr, Option.some.injEq] at h
        subst h
        obtain ⟨hl, hg⟩ := ih ns' hr
        refine ⟨by simp [hl], fun j lm hj => ?_⟩
        cases j with
        | zero =>
          simp only [List.getElem?_cons_zero, Option.some.injEq] at hj
          subst hj
          simp [hx]
        | succ j =>
          simp only [List.getElem?_cons_succ] at hj ⊢
          exact hg j lm hj

/-- an object with a NULL name behind a named one has the empty name -/
example : linkNames (fun a => if a = 100 then some [47, 97] else none) [⟨1, 100, 2, 0⟩, ⟨3, 0, 4, 0⟩] = some [[47, 97], []] := by
  decide

end Mdw
