//! Live targets: spawn `vtarget`, observe it, take real dumps of it with the real
//! `MinidumpWriter`, and record everything the Lean driver needs in one case line plus sidecar files.
use crate::recdest::RecDest;
use crate::rng::hex;
use minidump_writer::app_memory::AppMemory;
use minidump_writer::crash_context::CrashContext;
use minidump_writer::maps_reader::{MappingEntry, MappingInfo, SystemMappingInfo};
use minidump_writer::minidump_writer::{DirectAuxvDumpInfo, MinidumpWriter};
use procfs_core::process::MMPermissions;
use serde_json::Value;
use std::io::{BufRead, BufReader, Read, Write};
use std::os::unix::fs::FileExt;
use std::process::{Child, Command, Stdio};
use std::sync::atomic::{AtomicBool, AtomicU64, Ordering};
use std::sync::Arc;

pub fn build_dir() -> String {
    std::env::var("VERIF_BUILD").unwrap_or_else(|_| "/verif/.build".to_string())
}

pub fn run_dir(sub: &str) -> String {
    let d = format!("{}/run/live/{}", build_dir(), sub);
    std::fs::create_dir_all(&d).ok();
    d
}

pub struct TThread {
    pub idx: usize,
    pub tid: i32,
    pub spin: bool,
    /// a thread that is almost always the parent of a vfork child: it cannot stop until the child is gone
    pub slow: bool,
    pub regs_addr: u64,
    pub pipe_w: i32,
    pub stack_lo: u64,
    pub stack_hi: u64,
    pub sig_addr: u64,
    pub name_hex: String,
}

pub struct Target {
    pub child: Child,
    pub pid: i32,
    pub desc: Value,
    pub desc_raw: String,
    pub threads: Vec<TThread>,
    pub page: u64,
    mem: Option<std::fs::File>,
    done: Arc<AtomicBool>,
}

static LIVE_COUNTER: AtomicU64 = AtomicU64::new(0);
/// set while a recorded dump request is executing; holds the kernel thread id of the dumping thread (0 otherwise)
pub static DUMPER_TID: std::sync::atomic::AtomicI32 = std::sync::atomic::AtomicI32::new(0);

impl Target {
    pub fn spawn(args: &[String]) -> Result<Target, String> {
        // `--nopie` (consumed here): the position-dependent build of the same program
        let nopie = args.iter().any(|a| a == "--nopie");
        let args: Vec<String> = args.iter().filter(|a| *a != "--nopie").cloned().collect();
        let exe = format!("{}/targets/vtarget{}", build_dir(), if nopie { "_nopie" } else { "" });
        let mut child = Command::new(&exe)
            .args(&args)
            // the kernel rewrites the rseq area (in the TCB at the top of each thread stack) whenever a
            // thread migrates; switching registration off keeps stopped threads' memory still
            .env("GLIBC_TUNABLES", "glibc.pthread.rseq=0")
            .stdin(Stdio::null())
            .stdout(Stdio::piped())
            .stderr(Stdio::null())
            .spawn()
            .map_err(|e| format!("spawn {}: {}", exe, e))?;
        let mut rd = BufReader::new(child.stdout.take().unwrap());
        let mut line = String::new();
        rd.read_line(&mut line).map_err(|e| e.to_string())?;
        let mut ready = String::new();
        rd.read_line(&mut ready).map_err(|e| e.to_string())?;
        if ready.trim() != "ready" {
            let _ = child.kill();
            let _ = child.wait();
            return Err(format!("target did not get ready: {:?} {:?}", line, ready));
        }
        let desc: Value = serde_json::from_str(&line).map_err(|e| format!("desc: {}", e))?;
        let pid = desc["pid"].as_i64().unwrap() as i32;
        let threads: Vec<TThread> = desc["threads"]
            .as_array()
            .unwrap()
            .iter()
            .map(|t| TThread {
                idx: t["idx"].as_u64().unwrap() as usize,
                tid: t["tid"].as_i64().unwrap() as i32,
                spin: t["spin"].as_i64().unwrap() != 0,
                slow: t["spin"].as_i64().unwrap() == 2,
                regs_addr: t["regs_addr"].as_u64().unwrap(),
                pipe_w: t["pipe_w"].as_i64().unwrap() as i32,
                stack_lo: t["stack_lo"].as_u64().unwrap(),
                stack_hi: t["stack_hi"].as_u64().unwrap(),
                sig_addr: t["sig_addr"].as_u64().unwrap(),
                name_hex: t["name_hex"].as_str().unwrap().to_string(),
            })
            .collect();
        let page = desc["page"].as_u64().unwrap();
        let done = Arc::new(AtomicBool::new(false));
        // watchdog: a live case must never hang the harness
        {
            let done = done.clone();
            std::thread::spawn(move || {
                for _ in 0..600 {
                    std::thread::sleep(std::time::Duration::from_millis(100));
                    if done.load(Ordering::SeqCst) {
                        return;
                    }
                }
                unsafe { libc::kill(pid, libc::SIGKILL) };
            });
        }
        // through the last thread's task entry: the leader may be a zombie (no address space of its own to show)
        let mem_tid = threads.last().map(|x: &TThread| x.tid).unwrap_or(pid);
        let mem = std::fs::File::open(format!("/proc/{}/task/{}/mem", pid, mem_tid))
            .or_else(|_| std::fs::File::open(format!("/proc/{}/mem", pid)))
            .ok();
        let t = Target { child, pid, desc, desc_raw: line.trim().to_string(), threads, page, mem, done };
        t.wait_parked();
        Ok(t)
    }

    /// Wait until every blocking thread really sits in its read(): a thread that was stopped and
    /// resumed (by an earlier dump, or that has only just been created) re-enters the syscall a moment
    /// later, and until then its registers are those of the restart window.  A time-based wait is
    /// not enough on a loaded machine.
    pub fn wait_parked(&self) {
        let deadline = std::time::Instant::now() + std::time::Duration::from_secs(2);
        loop {
            let all = self.threads.iter().filter(|t| !t.spin).all(|t| {
                // blocked in read() *and* asleep: a thread that an earlier request stopped inside that call still shows
                // the call while it is stopped, and while it is on its way back into it (its instruction pointer is then
                // at the syscall instruction, not behind it)
                let asleep = match std::fs::read_to_string(format!("/proc/{}/task/{}/stat", self.pid, t.tid)) {
                    Ok(s) => s.rsplit(") ").next().map(|r| r.starts_with('S')).unwrap_or(false),
                    Err(_) => true, // gone
                };
                match std::fs::read_to_string(format!("/proc/{}/task/{}/syscall", self.pid, t.tid)) {
                    Ok(s) => s.starts_with("0 ") && asleep,
                    Err(_) => true, // gone
                }
            });
            if all || std::time::Instant::now() > deadline {
                return;
            }
            std::thread::sleep(std::time::Duration::from_micros(300));
        }
    }

    pub fn read_mem(&self, addr: u64, len: usize) -> Option<Vec<u8>> {
        // (seek + read, not pread: a worker may run under a policy that refuses pread64 to the dumper, see
        // `forbid_fast_reads`)
        use std::io::{Read, Seek, SeekFrom};
        let mut buf = vec![0u8; len];
        let mut f = self.mem.as_ref()?;
        f.seek(SeekFrom::Start(addr)).ok()?;
        f.read_exact(&mut buf).ok()?;
        Some(buf)
    }

    pub fn read_u64(&self, addr: u64) -> u64 {
        self.read_mem(addr, 8).map(|b| u64::from_le_bytes(b.try_into().unwrap())).unwrap_or(0)
    }

    /// let blocked thread `idx` leave its read() and exit
    pub fn release_thread(&self, idx: usize) {
        if let Ok(mut f) = std::fs::OpenOptions::new().write(true).open(format!("/proc/{}/fd/{}", self.pid, self.threads[idx].pipe_w)) {
            let _ = f.write_all(b"x");
        }
    }

    pub fn maps_text(&self) -> String {
        std::fs::read_to_string(format!("/proc/{}/maps", self.pid)).unwrap_or_default()
    }

    /// `State:` and `TracerPid:` of every task
    pub fn task_states(&self) -> Vec<(i32, String, i32)> {
        let mut v = Vec::new();
        if let Ok(rd) = std::fs::read_dir(format!("/proc/{}/task", self.pid)) {
            for e in rd.flatten() {
                if let Ok(tid) = e.file_name().to_string_lossy().parse::<i32>() {
                    let st = std::fs::read_to_string(format!("/proc/{}/task/{}/status", self.pid, tid)).unwrap_or_default();
                    let mut state = String::new();
                    let mut tracer = -1;
                    for l in st.lines() {
                        if let Some(x) = l.strip_prefix("State:\t") {
                            state = x.chars().next().unwrap_or('?').to_string();
                        }
                        if let Some(x) = l.strip_prefix("TracerPid:\t") {
                            tracer = x.trim().parse().unwrap_or(-1);
                        }
                    }
                    v.push((tid, state, tracer));
                }
            }
        }
        v.sort();
        v
    }

    /// expected register file of a blocked thread, from the shared page:
    /// tid:spin:namehex:rsp:rip:rbx:rbp:r8:r9:r10:r12:r13:r14:r15:rdi:rsi:idx:counter
    pub fn thread_field(&self) -> String {
        let mut parts = Vec::new();
        for t in &self.threads {
            let r = |off: u64| self.read_u64(t.regs_addr + off);
            parts.push(format!(
                "{}:{}:{}:{}:{}:{}:{}:{}:{}:{}:{}:{}:{}:{}:{}:{}:{}:{}",
                t.tid, if t.slow { 2 } else { t.spin as u8 }, if t.name_hex.is_empty() { "-".to_string() } else { t.name_hex.clone() },
                r(80), r(88), r(0), r(8), r(16), r(24), r(32), r(40), r(48), r(56), r(64),
                0, 0, t.idx, r(384)
            ));
        }
        parts.join(";")
    }
}

impl Drop for Target {
    fn drop(&mut self) {
        self.done.store(true, Ordering::SeqCst);
        let _ = self.child.kill();
        // a thread that a (faulty) dumper left attached to us has to be reaped by us, the tracer, before the
        // thread-group leader can be
        for th in self.threads.iter().filter(|x| x.tid != self.pid) {
            let mut st = 0;
            unsafe { libc::waitpid(th.tid, &mut st, libc::__WALL | libc::WNOHANG) };
        }
        for _ in 0..200 {
            if !std::path::Path::new(&format!("/proc/{}", self.pid)).exists() {
                return; // already reaped (a scenario killed and reaped it)
            }
            match self.child.try_wait() {
                Ok(Some(_)) => return,
                _ => {
                    for th in self.threads.iter().filter(|x| x.tid != self.pid) {
                        let mut st = 0;
                        unsafe { libc::waitpid(th.tid, &mut st, libc::__WALL | libc::WNOHANG) };
                    }
                    std::thread::sleep(std::time::Duration::from_millis(5));
                }
            }
        }
    }
}

#[derive(Clone, Default)]
pub struct CrashSpec {
    pub tid: i32,
    pub signo: u32,
    pub code: i32,
    pub addr: u64,
    /// gregs by libc REG_* index
    pub gregs: [i64; 23],
    pub fp_seed: u64,
}

#[derive(Clone, Default)]
pub struct DumpCfg {
    pub blamed: i32,
    pub crash: Option<CrashSpec>,
    pub limit: Option<u64>,
    pub sanitize: bool,
    pub principal: Option<u64>,
    pub app_memory: Vec<(u64, u64)>,
    /// (start, size, offset, perms bits, name, identifier)
    pub user_mappings: Vec<(u64, u64, u64, u8, String, Vec<u8>)>,
    /// the system range of the caller's mappings begins this far above their (bias-adjusted) start: the two are
    /// independent inputs, and what is listed is the start
    pub user_sys_delta: u64,
    /// the earlier requests on the writer (`pre_dumps`) are made with this principal-mapping address; the recorded
    /// request with `principal`
    pub pre_principal: Option<u64>,
    /// (phnum, phdr, gate, entry)
    pub direct_auxv: Option<(u64, u64, u64, u64)>,
    /// how long the dumper waits for the SIGSTOP to take effect (None: the library's default)
    pub stop_timeout_ns: Option<u64>,
    /// requests made on the same configured writer before the recorded one (a writer may be reused)
    pub pre_dumps: usize,
    /// … and those earlier requests are aborted by a destination failure at this call (a hard error part-way)
    pub pre_fail_call: Option<usize>,
    /// another process seizes this thread just before the recorded request (after the earlier ones): it cannot be
    /// attached to any more
    pub trace_tid: Option<i32>,
    /// run the recorded request on a thread of its own that may read the target's memory with PTRACE_PEEKDATA only
    /// (`forbid_fast_reads`; a seccomp filter binds the thread that installs it, and children forked from it)
    pub ptrace_only: bool,
}

impl DumpCfg {
    pub fn field(&self) -> String {
        let mut s = format!("blamed:{}", self.blamed);
        if let Some(c) = &self.crash {
            s.push_str(&format!(",crash:{}:{}:{}:{}", c.tid, c.signo, c.code as u32, c.addr)); // the code as the 32-bit pattern the record carries
            let g: Vec<String> = c.gregs.iter().map(|v| (*v as u64).to_string()).collect();
            s.push_str(&format!(",cg:{}:{}", g.join("."), c.fp_seed));
        }
        if let Some(l) = self.limit {
            s.push_str(&format!(",limit:{}", l));
        }
        if self.sanitize {
            s.push_str(",sanitize");
        }
        if let Some(p) = self.principal {
            s.push_str(&format!(",principal:{}", p));
        }
        for (p, l) in &self.app_memory {
            s.push_str(&format!(",app:{}:{}", p, l));
        }
        for (st, sz, off, pe, name, id) in &self.user_mappings {
            s.push_str(&format!(",umap:{}:{}:{}:{}:{}:{}", st, sz, off, pe, hex(name.as_bytes()), hex(id)));
        }
        if let Some((a, b, c, d)) = self.direct_auxv {
            s.push_str(&format!(",auxv:{}:{}:{}:{}", a, b, c, d));
        }
        if self.pre_dumps > 0 {
            s.push_str(&format!(",reused:{}", self.pre_dumps));
        }
        if let Some(k) = self.pre_fail_call {
            s.push_str(&format!(",prefail:{}", k));
        }
        s
    }
}

pub fn make_crash_context(c: &CrashSpec, pid: i32) -> CrashContext {
    let mut inner: crash_context::CrashContext = unsafe { std::mem::zeroed() };
    inner.pid = pid;
    inner.tid = c.tid;
    inner.siginfo.ssi_signo = c.signo;
    inner.siginfo.ssi_code = c.code;
    inner.siginfo.ssi_addr = c.addr;
    for i in 0..23 {
        inner.context.uc_mcontext.gregs[i] = c.gregs[i];
    }
    // floating point state derived from the seed (the driver recomputes it)
    let mut x = c.fp_seed;
    let mut next = || {
        x = x.wrapping_mul(6364136223846793005).wrapping_add(1442695040888963407);
        x
    };
    inner.float_state.cwd = next() as u16;
    inner.float_state.swd = next() as u16;
    inner.float_state.ftw = next() as u16;
    inner.float_state.fop = next() as u16;
    inner.float_state.rip = next();
    inner.float_state.rdp = next();
    inner.float_state.mxcsr = next() as u32;
    inner.float_state.mxcr_mask = next() as u32;
    for i in 0..8 {
        inner.float_state.st_space[i * 4] = next() as u32;
        inner.float_state.st_space[i * 4 + 1] = next() as u32;
        inner.float_state.st_space[i * 4 + 2] = (next() & 0xffff) as u32;
        inner.float_state.st_space[i * 4 + 3] = 0;
    }
    for i in 0..64 {
        inner.float_state.xmm_space[i] = next() as u32;
    }
    CrashContext { inner }
}

pub fn writer_for(t: &Target, cfg: &DumpCfg) -> MinidumpWriter {
    let mut w = MinidumpWriter::new(t.pid, cfg.blamed);
    if let Some(c) = &cfg.crash {
        w.set_crash_context(make_crash_context(c, t.pid));
    }
    if let Some(l) = cfg.limit {
        w.set_minidump_size_limit(l);
    }
    if cfg.sanitize {
        w.sanitize_stack();
    }
    if let Some(ns) = cfg.stop_timeout_ns {
        w.stop_timeout(std::time::Duration::from_nanos(ns));
    }
    if let Some(p) = cfg.principal {
        w.skip_stacks_if_mapping_unreferenced();
        w.set_principal_mapping_address(p as usize);
    }
    if !cfg.app_memory.is_empty() {
        w.set_app_memory(cfg.app_memory.iter().map(|(p, l)| AppMemory { ptr: *p as usize, length: *l as usize }).collect());
    }
    if !cfg.user_mappings.is_empty() {
        w.set_user_mapping_list(
            cfg.user_mappings
                .iter()
                .map(|(st, sz, off, pe, name, id)| MappingEntry {
                    mapping: MappingInfo {
                        start_address: *st as usize,
                        size: *sz as usize,
                        system_mapping_info: SystemMappingInfo { start_address: (*st + cfg.user_sys_delta.min(sz.saturating_sub(1))) as usize, end_address: (*st + *sz) as usize },
                        offset: *off as usize,
                        permissions: MMPermissions::from_bits_truncate(*pe),
                        name: Some(name.clone().into()),
                    },
                    identifier: id.clone(),
                })
                .collect(),
        );
    }
    if let Some((a, b, c, d)) = cfg.direct_auxv {
        w.set_direct_auxv_dump_info(DirectAuxvDumpInfo {
            program_header_count: a,
            program_header_address: b,
            linux_gate_address: c,
            entry_address: d,
        });
    }
    w
}

pub fn err_class(e: &minidump_writer::errors::WriterError) -> String {
    let d = format!("{:?}", e);
    let head: String = d.chars().take_while(|c| c.is_alphanumeric() || *c == '_').collect();
    let inner: String = d
        .split('(')
        .nth(1)
        .map(|s| s.chars().take_while(|c| c.is_alphanumeric() || *c == '_').collect())
        .unwrap_or_default();
    format!("{}.{}", head, inner)
}

/// ranges of target memory recorded before the dump (the target is blocked, memory is stable)
pub fn snapshot_memory(t: &Target, cfg: &DumpCfg, extra: &[(u64, u64)]) -> Vec<(u64, Vec<u8>)> {
    let mut ranges: Vec<(u64, u64)> = Vec::new();
    let maps = t.maps_text();
    let mut parsed: Vec<(u64, u64, String)> = Vec::new();
    let mut names: Vec<String> = Vec::new();
    for l in maps.lines() {
        let mut it = l.split_whitespace();
        if let (Some(r), Some(p)) = (it.next(), it.next()) {
            if let Some((a, b)) = r.split_once('-') {
                if let (Ok(a), Ok(b)) = (u64::from_str_radix(a, 16), u64::from_str_radix(b, 16)) {
                    parsed.push((a, b, p.to_string()));
                    names.push(it.nth(3).unwrap_or("").to_string());
                }
            }
        }
    }
    // the line that contains an address; its end is taken to the end of the adjacent lines of the same file (which
    // the dumper folds into one mapping), and a line that is writable but not readable counts as readable here (a
    // stack can be such a mapping: it is read through /proc/<pid>/mem)
    let containing = |addr: u64| {
        let i = parsed.iter().position(|(a, b, _)| *a <= addr && addr < *b)?;
        let (a, mut b, p) = parsed[i].clone();
        let mut j = i + 1;
        while j < parsed.len() && parsed[j].0 == b && !names[i].is_empty() && names[j] == names[i] {
            b = parsed[j].1;
            j += 1;
        }
        let p = if p.starts_with("-w") { format!("r{}", &p[1..]) } else { p };
        Some((a, b, p))
    };
    // stacks: from the page of each thread's stack pointer to the end of its mapping
    for th in &t.threads {
        let rsp = t.read_u64(th.regs_addr + 80);
        // a thread waiting with its stack pointer outside its own stack (e.g. in the guard pages in front of it):
        // the stack mapping above is what a dump may capture
        if th.stack_lo != 0 && !(th.stack_lo <= rsp && rsp < th.stack_hi) && th.stack_hi - th.stack_lo <= (1 << 20) {
            ranges.push((th.stack_lo, th.stack_hi - th.stack_lo));
        }
        if rsp != 0 {
            if let Some((_, b, p)) = containing(rsp) {
                if p.starts_with('r') {
                    let lo = rsp & !(t.page - 1);
                    ranges.push((lo, (b - lo).min(1 << 21)));
                }
            }
        }
    }
    if let Some(c) = &cfg.crash {
        let rsp = c.gregs[libc::REG_RSP as usize] as u64;
        if let Some((_, b, p)) = containing(rsp) {
            if p.starts_with('r') {
                let lo = rsp & !(t.page - 1);
                ranges.push((lo, (b - lo).min(1 << 21)));
            }
        }
        let rip = c.gregs[libc::REG_RIP as usize] as u64;
        if let Some((a, b, p)) = containing(rip) {
            if p.starts_with('r') {
                let lo = rip.saturating_sub(256).max(a);
                let hi = (rip + 256).min(b);
                ranges.push((lo, hi - lo));
            }
        }
    }
    for r in t.desc["regions"].as_array().unwrap() {
        ranges.push((r["addr"].as_u64().unwrap(), r["len"].as_u64().unwrap()));
    }
    for (p, l) in &cfg.app_memory {
        ranges.push((*p, *l));
    }
    if t.desc["dso"]["n"].as_u64().unwrap_or(0) > 0 {
        ranges.push((t.desc["dso"]["dyn"].as_u64().unwrap(), 256));
    }
    ranges.extend_from_slice(extra);
    let mut out = Vec::new();
    for (a, l) in ranges {
        if l == 0 || l > (4 << 20) {
            continue;
        }
        if let Some(b) = t.read_mem(a, l as usize) {
            out.push((a, b));
        }
    }
    out
}

pub struct DumpOutcome {
    pub result: String,
    pub image: Option<Vec<u8>>,
    pub line: String,
    /// where the image was stored (sidecar of the case line)
    pub img_path: String,
}

/// one real dump of `t`, everything recorded
pub fn dump_case(prop: &str, id: &str, t: &Target, cfg: &DumpCfg, dest: &mut RecDest, extra_fields: &str) -> DumpOutcome {
    crate::rng::progress(id);   // a request that does not come back ends the run (`HANG <id>`, see main.rs)
    t.wait_parked();
    let n = LIVE_COUNTER.fetch_add(1, Ordering::SeqCst);
    let dir = run_dir(prop);
    let base = format!("{}/{}-{}", dir, id, n);
    let c0 = dest.content.clone();
    let start = dest.pos;
    let mem = snapshot_memory(t, cfg, &[]);
    let maps = t.maps_text();
    // what the kernel reports about the target right now (it is blocked): the writer copies these
    for f in ["cmdline", "environ", "auxv", "limits", "status"] {
        let data = std::fs::read(format!("/proc/{}/{}", cfg.blamed, f)).unwrap_or_default();
        std::fs::write(format!("{}.{}", base, f), data).ok();
    }
    std::fs::write(format!("{}.cpuinfo", base), std::fs::read("/proc/cpuinfo").unwrap_or_default()).ok();
    // what uname(2) says: the OS version string of the system-info stream is "<sysname> <release> <version> <machine>"
    {
        let mut u: libc::utsname = unsafe { std::mem::zeroed() };
        if unsafe { libc::uname(&mut u) } == 0 {
            let f = |a: &[libc::c_char]| unsafe { std::ffi::CStr::from_ptr(a.as_ptr()) }.to_string_lossy().to_string();
            std::fs::write(format!("{}.uname", base), format!("{} {} {} {}", f(&u.sysname), f(&u.release), f(&u.version), f(&u.machine))).ok();
        }
    }
    // the kernel's name of every thread (comm), for the thread-names stream
    {
        let mut comm = String::new();
        for th in &t.threads {
            let data = std::fs::read(format!("/proc/{}/task/{}/comm", t.pid, th.tid)).unwrap_or_default();
            comm.push_str(&format!("{} {}\n", th.tid, if data.is_empty() { "-".to_string() } else { hex(&data) }));
        }
        std::fs::write(format!("{}.comm", base), comm).ok();
    }
    let mut fds: Vec<String> = Vec::new();
    if let Ok(rd) = std::fs::read_dir(format!("/proc/{}/fd", t.pid)) {
        for e in rd.flatten() {
            let name = e.file_name().to_string_lossy().to_string();
            let link = std::fs::read_link(e.path()).map(|p| p.to_string_lossy().to_string()).unwrap_or_default();
            use std::os::unix::fs::MetadataExt;
            let mode = std::fs::metadata(e.path()).map(|m| m.mode()).unwrap_or(0);
            let ok = std::fs::metadata(e.path()).is_ok();
            fds.push(format!("{} {} {} {}", name, mode, ok as u8, hex(link.as_bytes())));
        }
    }
    std::fs::write(format!("{}.fds", base), fds.join("\n")).ok();
    let thr = t.thread_field();
    let mut w = writer_for(t, cfg);
    if let (Some(pp), true) = (cfg.pre_principal, cfg.pre_dumps > 0 && cfg.principal.is_some()) {
        w.set_principal_mapping_address(pp as usize);
    }
    for _ in 0..cfg.pre_dumps {
        let mut scratch = RecDest::new(vec![], 0);
        if let Some(k) = cfg.pre_fail_call {
            scratch.script.insert(k, crate::recdest::Resp::Fail);
        }
        let prev = std::panic::take_hook();
        std::panic::set_hook(Box::new(|_| {}));
        let _ = std::panic::catch_unwind(std::panic::AssertUnwindSafe(|| w.dump(&mut scratch)));
        std::panic::set_hook(prev);
        t.wait_parked();
    }
    if let (Some(_), true, Some(p)) = (cfg.pre_principal, cfg.pre_dumps > 0, cfg.principal) {
        w.set_principal_mapping_address(p as usize);
    }
    let mut tracer = cfg.trace_tid.and_then(crate::c01::spawn_tracer);
    let prev = std::panic::take_hook();
    std::panic::set_hook(Box::new(|_| {}));
    let mut filtered = false;
    let res = if cfg.ptrace_only {
        let w_ref = &mut w;
        let dest_ref = &mut *dest;
        let filtered_ref = &mut filtered;
        std::thread::scope(|sc| {
            sc.spawn(move || {
                *filtered_ref = forbid_fast_reads();
                DUMPER_TID.store(unsafe { libc::syscall(libc::SYS_gettid) } as i32, Ordering::SeqCst);
                let r = std::panic::catch_unwind(std::panic::AssertUnwindSafe(|| w_ref.dump(dest_ref)));
                DUMPER_TID.store(0, Ordering::SeqCst);
                r
            })
            .join()
            .unwrap_or_else(|e| Err(e))
        })
    } else {
        DUMPER_TID.store(unsafe { libc::syscall(libc::SYS_gettid) } as i32, Ordering::SeqCst);
        let r = std::panic::catch_unwind(std::panic::AssertUnwindSafe(|| w.dump(dest)));
        DUMPER_TID.store(0, Ordering::SeqCst);
        r
    };
    std::panic::set_hook(prev);
    if let Some(mut c) = tracer.take() {
        let _ = c.kill();
        let _ = c.wait();
    }
    let (result, image) = match res {
        Ok(Ok(img)) => ("ok".to_string(), Some(img)),
        Ok(Err(e)) => (format!("err:{}", err_class(&e)), None),
        Err(_) => ("panic".to_string(), None),
    };
    let states: Vec<String> = t.task_states().iter().map(|(tid, s, tr)| format!("{}:{}:{}", tid, s, tr)).collect();
    let mut f = std::fs::File::create(format!("{}.mem", base)).unwrap();
    for (a, b) in &mem {
        writeln!(f, "{} {}", a, hex(b)).unwrap();
    }
    std::fs::write(format!("{}.maps", base), &maps).unwrap();
    std::fs::write(format!("{}.dest", base), &dest.content).unwrap();
    std::fs::write(format!("{}.c0", base), &c0).unwrap();
    if let Some(img) = &image {
        std::fs::write(format!("{}.img", base), img).unwrap();
    }
    let (softst, softtree) = image.as_ref().map(|img| crate::c11::soft_error_field(img)).unwrap_or(("absent".into(), "-".into()));
    let line = format!(
        "{} {} kind=dump cfg={} result={} softst={} softtree={} img=@{}.img mem=@{}.mem maps=@{}.maps dest=@{}.dest c0=@{}.c0 base={} start={} log={} thr={} states={} pid={}{}",
        prop, id, cfg.field(), result, softst, softtree, base, base, base, base, base, base, start,
        if dest.log.is_empty() { "-".to_string() } else { dest.log.join(",") },
        thr,
        states.join(","),
        t.pid,
        format!("{}{}", if extra_fields.is_empty() { String::new() } else { format!(" {}", extra_fields) },
            if filtered { " readmode=ptrace" } else { "" })
    );
    DumpOutcome { result, image, line, img_path: format!("{}.img", base) }
}

#[allow(dead_code)]
pub fn read_all(path: &str) -> Vec<u8> {
    let mut v = Vec::new();
    if let Ok(mut f) = std::fs::File::open(path) {
        let _ = f.read_to_end(&mut v);
    }
    v
}

/// run a scenario in a child process of this harness (`mdw-harness worker …`): for scenarios that change the process
/// irreversibly (a seccomp filter) or may kill it (a fatal signal). Returns the lines it printed and whether it was
/// killed by a signal.
pub fn run_worker(args: &[String]) -> (Vec<String>, Option<i32>) {
    use std::os::unix::process::ExitStatusExt;
    let exe = match std::env::current_exe() {
        Ok(e) => e,
        Err(_) => return (vec![], None),
    };
    let outp = match Command::new(exe).args(args).stdin(Stdio::null()).stderr(Stdio::null()).output() {
        Ok(o) => o,
        Err(_) => return (vec![], None),
    };
    let lines = String::from_utf8_lossy(&outp.stdout).lines().filter(|l| !l.trim().is_empty()).map(|l| l.to_string()).collect();
    (lines, outp.status.signal())
}

/// make `process_vm_readv` fail with ENOSYS and `pread64` with EPERM for this process from now on (seccomp filter): the
/// dumper is left with PTRACE_PEEKDATA for reading the target's memory (a kernel without cross-memory attach, a sandbox)
pub fn forbid_fast_reads() -> bool {
    #[repr(C)]
    struct SockFilter { code: u16, jt: u8, jf: u8, k: u32 }
    #[repr(C)]
    struct SockFprog { len: u16, filter: *const SockFilter }
    const LD_W_ABS: u16 = 0x20;
    const JEQ_K: u16 = 0x15;
    const RET_K: u16 = 0x06;
    const ALLOW: u32 = 0x7fff_0000;
    let prog = [
        SockFilter { code: LD_W_ABS, jt: 0, jf: 0, k: 0 },
        SockFilter { code: JEQ_K, jt: 2, jf: 0, k: libc::SYS_process_vm_readv as u32 },
        SockFilter { code: JEQ_K, jt: 2, jf: 0, k: libc::SYS_pread64 as u32 },
        SockFilter { code: RET_K, jt: 0, jf: 0, k: ALLOW },
        SockFilter { code: RET_K, jt: 0, jf: 0, k: 0x0005_0000 | 38 },      // ENOSYS
        SockFilter { code: RET_K, jt: 0, jf: 0, k: 0x0005_0000 | 1 },       // EPERM
    ];
    let fprog = SockFprog { len: prog.len() as u16, filter: prog.as_ptr() };
    let ok = unsafe {
        libc::prctl(libc::PR_SET_NO_NEW_PRIVS, 1, 0, 0, 0) == 0
            && libc::prctl(libc::PR_SET_SECCOMP, 2 /* SECCOMP_MODE_FILTER */, &fprog as *const SockFprog) == 0
    };
    ok
}

/// make `ptrace(PTRACE_GETREGSET, …)` fail with EIO for this process from now on (seccomp filter)
pub fn forbid_getregset() -> bool {
    #[repr(C)]
    struct SockFilter { code: u16, jt: u8, jf: u8, k: u32 }
    #[repr(C)]
    struct SockFprog { len: u16, filter: *const SockFilter }
    const LD_W_ABS: u16 = 0x20; // BPF_LD | BPF_W | BPF_ABS
    const JEQ_K: u16 = 0x15;    // BPF_JMP | BPF_JEQ | BPF_K
    const RET_K: u16 = 0x06;    // BPF_RET | BPF_K
    const ALLOW: u32 = 0x7fff_0000;
    const ERRNO_EIO: u32 = 0x0005_0000 | 5;
    let prog = [
        SockFilter { code: LD_W_ABS, jt: 0, jf: 0, k: 0 },                  // seccomp_data.nr
        SockFilter { code: JEQ_K, jt: 0, jf: 3, k: libc::SYS_ptrace as u32 },
        SockFilter { code: LD_W_ABS, jt: 0, jf: 0, k: 16 },                 // low half of args[0]
        SockFilter { code: JEQ_K, jt: 0, jf: 1, k: 0x4204 },                // PTRACE_GETREGSET
        SockFilter { code: RET_K, jt: 0, jf: 0, k: ERRNO_EIO },
        SockFilter { code: RET_K, jt: 0, jf: 0, k: ALLOW },
    ];
    let fprog = SockFprog { len: prog.len() as u16, filter: prog.as_ptr() };
    unsafe {
        if libc::prctl(libc::PR_SET_NO_NEW_PRIVS, 1, 0, 0, 0) != 0 {
            return false;
        }
        libc::prctl(libc::PR_SET_SECCOMP, 2 /* SECCOMP_MODE_FILTER */, &fprog as *const SockFprog) == 0
    }
}
