mod c09;
mod c13;
mod c16;
mod recdest;
mod rng;

use std::io::Write;

fn usage() -> ! {
    eprintln!("usage: mdw-harness gen <Cxx> --tier quick|thorough --seed N [--out FILE]");
    std::process::exit(2)
}

fn main() {
    let args: Vec<String> = std::env::args().collect();
    if args.len() < 3 {
        usage();
    }
    let mut tier = "quick".to_string();
    let mut seed: u64 = 1;
    let mut out_path: Option<String> = None;
    let mut extra: Vec<String> = Vec::new();
    let mut i = 3;
    while i < args.len() {
        match args[i].as_str() {
            "--tier" => { tier = args[i + 1].clone(); i += 2; }
            "--seed" => { seed = args[i + 1].parse().unwrap_or(1); i += 2; }
            "--out" => { out_path = Some(args[i + 1].clone()); i += 2; }
            _ => { extra.push(args[i].clone()); i += 1; }
        }
    }
    let mut out: Box<dyn Write> = match out_path {
        Some(p) => Box::new(std::io::BufWriter::new(std::fs::File::create(p).unwrap())),
        None => Box::new(std::io::BufWriter::new(std::io::stdout())),
    };
    match (args[1].as_str(), args[2].as_str()) {
        ("gen", "C16") => c16::generate(seed, &tier, &mut out),
        ("gen", "C13") => c13::generate(seed, &tier, &mut out),
        ("gen", "C09") => c09::generate("C09", seed, &tier, &mut out),
        ("gen", "C10") => c09::generate("C10", seed, &tier, &mut out),
        _ => usage(),
    }
    out.flush().unwrap();
}
