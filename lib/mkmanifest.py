#!/usr/bin/env python3
"""Regenerate /verif/MANIFEST.json from lib/props.py (claimed checks) and properties.jsonl."""
import json, os, sys
VERIF = os.path.dirname(os.path.dirname(os.path.abspath(__file__)))
sys.path.insert(0, os.path.join(VERIF, "lib"))
from props import PROPS, NOT_APPLICABLE, HOOK_COMMITS

ids = [json.loads(l)["id"] for l in open(os.path.join(VERIF, "properties.jsonl"))]
checks = []
for pid in ids:
    if pid not in PROPS:
        continue
    c = PROPS[pid]
    checks.append({
        "property_id": pid,
        "quick_cmd": f"./check {pid} --tier quick",
        "thorough_cmd": f"./check {pid} --tier thorough",
        "evidence_file": f"evidence/{pid}.json",
        "replay_cmd_template": f"./check {pid} --replay {{path}}",
        "engine": "lean-model+proofs",
        "level_claimed": {"category": "proof", "text": c["explanation"], "design_ref": f"DESIGN.md §6 {pid}"},
        "level_note": "Trusted: Lean 4.33 kernel; axioms ⊆ {propext, Classical.choice, Quot.sound} (audited per theorem on every run); "
                      "the hand-written Lean model, tied to /repo by the correspondence harness on every run; " + "; ".join(c.get("trusted_base", []))
                      + (". Assumes: " + "; ".join(c["assumptions"]) if c.get("assumptions") else ""),
        "technique": c.get("technique", "Lean 4 proof over a model of the code + differential correspondence check against the real code"),
    })
m = {
    "version": 1,
    "setup_cmd": "cd /verif && ./setup.sh",
    "hooks": {"guard": "verif-hooks",
              "enable": "cargo feature `verif-hooks` of minidump-writer, switched on by /verif/harness/Cargo.toml (path dependency on /repo)",
              "baseline_off_cmd": "cd /repo && cargo test --workspace --no-fail-fast --offline",
              "source_commits": HOOK_COMMITS, "add_only": True},
    "engines": [
        {"name": "lean-model+proofs", "path": "lean/", "serves_properties": [c["property_id"] for c in checks],
         "kind_free_text": "Lean 4 models of the code, property theorems, compiled driver that evaluates model and property predicates on case lines"},
        {"name": "rust-correspondence-harness", "path": "harness/", "serves_properties": [c["property_id"] for c in checks],
         "kind_free_text": "Rust crate linking /repo (feature verif-hooks): runs the real functions / real dumps of live targets on generated inputs, prints case lines"},
        {"name": "source-extractor", "path": "gen/extract.py", "serves_properties": [c["property_id"] for c in checks],
         "kind_free_text": "regenerates Lean facts (stream plan, constants) from /repo's source on every run"},
    ],
    "checks": checks,
    "notes": "See DESIGN.md. ./check <id> rebuilds the Lean theorem module and driver, audits axioms, rebuilds the harness against /repo's working tree, "
             "runs the correspondence and writes evidence/<id>.json.",
    "not_applicable": [{"property_id": p, "reason": NOT_APPLICABLE.get(p, "check not built yet (work in progress; see DESIGN.md §9)")}
                       for p in ids if p not in PROPS],
}
json.dump(m, open(os.path.join(VERIF, "MANIFEST.json"), "w"), indent=1)
print("checks:", [c["property_id"] for c in checks], "not claimed:", [x["property_id"] for x in m["not_applicable"]])
