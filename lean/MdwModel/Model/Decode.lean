/-
  Decoder of minidump images (through a byte `View`, so that it runs on `ByteArray`s in the driver
  and on `List UInt8` in theorems) and the structural well-formedness predicate of C01.
-/
import MdwModel.Model.Records
import MdwModel.Model.ThreadNames
namespace Mdw

structure Img where
  rd : View
  len : Nat

def Img.ofBytes (bs : Bytes) : Img := ⟨viewOfList bs, bs.length⟩

def Img.u8 (i : Img) (o : Nat) : Option Nat := (i.rd o).map (·.toNat)
def Img.u16 (i : Img) (o : Nat) : Option Nat := readLE i.rd o 2
def Img.u32 (i : Img) (o : Nat) : Option Nat := readLE i.rd o 4
def Img.u64 (i : Img) (o : Nat) : Option Nat := readLE i.rd o 8
def Img.bytes (i : Img) (o n : Nat) : Option Bytes := readBytes i.rd o n

-- stream types
def ST_THREAD_LIST := 3
def ST_MODULE_LIST := 4
def ST_MEMORY_LIST := 5
def ST_EXCEPTION := 6
def ST_SYSTEM_INFO := 7
def ST_HANDLE_DATA := 12
def ST_MEMORY_INFO_LIST := 16
def ST_THREAD_NAMES := 24
def ST_LINUX_CPU_INFO := 0x47670003
def ST_LINUX_PROC_STATUS := 0x47670004
def ST_LINUX_LSB_RELEASE := 0x47670005
def ST_LINUX_CMD_LINE := 0x47670006
def ST_LINUX_ENVIRON := 0x47670007
def ST_LINUX_AUXV := 0x47670008
def ST_LINUX_MAPS := 0x47670009
def ST_LINUX_DSO_DEBUG := 0x4767000A
def ST_MOZ_LINUX_LIMITS := 0x4d7a0003
def ST_MOZ_SOFT_ERRORS := 0x4d7a0004

def MD_SIGNATURE := 0x504d444d
def MD_VERSION := 42899

structure DirEnt where
  ty : Nat
  size : Nat
  rva : Nat
  deriving Repr, DecidableEq, Inhabited

structure Header where
  signature : Nat
  version : Nat
  streamCount : Nat
  dirRva : Nat
  checksum : Nat
  timestamp : Nat
  flags : Nat
  deriving Repr

def decodeHeader (i : Img) : Option Header := do
  some ⟨← i.u32 0, (← i.u32 4) % 65536, ← i.u32 8, ← i.u32 12, ← i.u32 16, ← i.u32 20, ← i.u64 24⟩

def decodeDirectory (i : Img) (h : Header) : Option (List DirEnt) :=
  (List.range h.streamCount).mapM (fun k => do
    some ⟨← i.u32 (h.dirRva + 12 * k), ← i.u32 (h.dirRva + 12 * k + 4), ← i.u32 (h.dirRva + 12 * k + 8)⟩)

def findStream (dir : List DirEnt) (ty : Nat) : Option DirEnt := dir.find? (fun d => d.ty == ty)

structure ThreadRec where
  tid : Nat
  stackStart : Nat
  stackSize : Nat
  stackRva : Nat
  ctxSize : Nat
  ctxRva : Nat
  deriving Repr, DecidableEq, Inhabited

def decodeThreadList (i : Img) (d : DirEnt) : Option (List ThreadRec) := do
  let n ← i.u32 d.rva
  (List.range n).mapM (fun k => do
    let o := d.rva + 4 + 48 * k
    some ⟨← i.u32 o, ← i.u64 (o + 24), ← i.u32 (o + 32), ← i.u32 (o + 36), ← i.u32 (o + 40), ← i.u32 (o + 44)⟩)

structure ModuleRec where
  base : Nat
  size : Nat
  nameRva : Nat
  verSig : Nat
  verHi : Nat
  verLo : Nat
  prodHi : Nat
  prodLo : Nat
  cvSize : Nat
  cvRva : Nat
  deriving Repr, DecidableEq

def decodeModuleList (i : Img) (d : DirEnt) : Option (List ModuleRec) := do
  let n ← i.u32 d.rva
  (List.range n).mapM (fun k => do
    let o := d.rva + 4 + 108 * k
    some ⟨← i.u64 o, ← i.u32 (o + 8), ← i.u32 (o + 20), ← i.u32 (o + 24), ← i.u32 (o + 32), ← i.u32 (o + 36),
          ← i.u32 (o + 40), ← i.u32 (o + 44), ← i.u32 (o + 76), ← i.u32 (o + 80)⟩)

structure MemDesc where
  start : Nat
  size : Nat
  rva : Nat
  deriving Repr, DecidableEq

def decodeMemoryList (i : Img) (d : DirEnt) : Option (List MemDesc) := do
  let n ← i.u32 d.rva
  (List.range n).mapM (fun k => do
    let o := d.rva + 4 + 16 * k
    some ⟨← i.u64 o, ← i.u32 (o + 8), ← i.u32 (o + 12)⟩)

structure ExcRec where
  tid : Nat
  code : Nat
  flags : Nat
  record : Nat
  address : Nat
  nparams : Nat
  ctxSize : Nat
  ctxRva : Nat
  deriving Repr, DecidableEq

def decodeException (i : Img) (d : DirEnt) : Option ExcRec := do
  let o := d.rva
  some ⟨← i.u32 o, ← i.u32 (o + 8), ← i.u32 (o + 12), ← i.u64 (o + 16), ← i.u64 (o + 24), ← i.u32 (o + 32),
        ← i.u32 (o + 160), ← i.u32 (o + 164)⟩

structure SysInfoRec where
  arch : Nat
  level : Nat
  revision : Nat
  ncpu : Nat
  platform : Nat
  csdRva : Nat
  vendor : Bytes
  deriving Repr, DecidableEq

def decodeSystemInfo (i : Img) (d : DirEnt) : Option SysInfoRec := do
  let o := d.rva
  some ⟨← i.u16 o, ← i.u16 (o + 2), ← i.u16 (o + 4), ← i.u8 (o + 6), ← i.u32 (o + 20), ← i.u32 (o + 24),
        ← i.bytes (o + 32) 12⟩

structure MemInfoRec where
  base : Nat
  allocBase : Nat
  allocProt : Nat
  size : Nat
  state : Nat
  prot : Nat
  ty : Nat
  deriving Repr, DecidableEq

def decodeMemInfoList (i : Img) (d : DirEnt) : Option (Nat × Nat × List MemInfoRec) := do
  let hs ← i.u32 d.rva
  let es ← i.u32 (d.rva + 4)
  let n ← i.u64 (d.rva + 8)
  let l ← (List.range n).mapM (fun k => do
    let o := d.rva + 16 + 48 * k
    some (⟨← i.u64 o, ← i.u64 (o + 8), ← i.u32 (o + 16), ← i.u64 (o + 24), ← i.u32 (o + 32), ← i.u32 (o + 36),
           ← i.u32 (o + 40)⟩ : MemInfoRec))
  some (hs, es, l)

structure HandleRec where
  handle : Nat
  typeNameRva : Nat
  objectNameRva : Nat
  attributes : Nat
  deriving Repr, DecidableEq

def decodeHandles (i : Img) (d : DirEnt) : Option (Nat × Nat × List HandleRec) := do
  let hs ← i.u32 d.rva
  let ds ← i.u32 (d.rva + 4)
  let n ← i.u32 (d.rva + 8)
  let l ← (List.range n).mapM (fun k => do
    let o := d.rva + 16 + 32 * k
    some (⟨← i.u64 o, ← i.u32 (o + 8), ← i.u32 (o + 12), ← i.u32 (o + 16)⟩ : HandleRec))
  some (hs, ds, l)

structure LinkMapRec where
  addr : Nat
  nameRva : Nat
  ld : Nat
  deriving Repr, DecidableEq

structure DsoDebugRec where
  version : Nat
  mapRva : Nat
  count : Nat
  brk : Nat
  ldbase : Nat
  dynamic : Nat
  maps : List LinkMapRec
  deriving Repr, DecidableEq

def decodeDsoDebug (i : Img) (d : DirEnt) : Option DsoDebugRec := do
  let o := d.rva
  let count ← i.u32 (o + 8)
  let mapRva ← i.u32 (o + 4)
  let maps ← (List.range count).mapM (fun k => do
    let m := mapRva + 20 * k
    some (⟨← i.u64 m, ← i.u32 (m + 8), ← i.u64 (m + 12)⟩ : LinkMapRec))
  some ⟨← i.u32 o, mapRva, count, ← i.u64 (o + 12), ← i.u64 (o + 20), ← i.u64 (o + 28), maps⟩

/-- extent of a minidump string at `rva`: 4 + byte length -/
def stringExtent (i : Img) (rva : Nat) : Option Nat := do
  let len ← i.u32 rva
  some (4 + len)

-- C01 -----------------------------------------------------------------------------------------

/-- an object of the image: what it is, where it is -/
structure Obj where
  kind : String
  rva : Nat
  size : Nat
  deriving Repr, DecidableEq

/-- stream types whose body is `count × record` after a fixed header: (type, header, record) -/
def countedStreams : List (Nat × Nat × Nat) :=
  [(ST_THREAD_LIST, 4, 48), (ST_MODULE_LIST, 4, 108), (ST_MEMORY_LIST, 4, 16), (ST_THREAD_NAMES, 4, 12)]

/-- collect every object of a decoded image, or say why the image is not well formed -/
def collectObjects (i : Img) : Except String (List Obj) := do
  let some h := decodeHeader i | throw "header not readable"
  if h.signature != MD_SIGNATURE then throw "bad signature"
  if h.version != MD_VERSION then throw "bad version"
  let some dir := decodeDirectory i h | throw "directory not readable"
  let mut objs : List Obj := [⟨"header", 0, 32⟩, ⟨"directory", h.dirRva, 12 * h.streamCount⟩]
  -- entries: unused (all zero) or a stream of a type that occurs once
  let used := dir.filter (fun d => !(d.ty == 0 && d.size == 0 && d.rva == 0))
  for d in used do
    if d.ty == 0 then throw s!"directory entry with stream type 0 but location ({d.size},{d.rva})"
    if (used.filter (fun e => e.ty == d.ty)).length != 1 then throw s!"stream type {d.ty} occurs more than once"
    if d.rva + d.size > i.len then throw s!"stream {d.ty} [{d.rva},{d.rva + d.size}) outside the image ({i.len})"
    objs := ⟨s!"stream:{d.ty}", d.rva, d.size⟩ :: objs
  -- sizes implied by record counts
  for (ty, hdr, rec) in countedStreams do
    match findStream used ty with
    | none => pure ()
    | some d =>
      let some n := i.u32 d.rva | throw s!"stream {ty}: count not readable"
      -- the module list omits its array when empty; the others always have one
      if d.size != hdr + n * rec then throw s!"stream {ty}: size {d.size} ≠ {hdr} + {n} × {rec}"
  -- thread list
  if let some d := findStream used ST_THREAD_LIST then
    let some ts := decodeThreadList i d | throw "thread list not readable"
    for t in ts do
      if t.stackSize > 0 then objs := ⟨s!"stack:{t.tid}", t.stackRva, t.stackSize⟩ :: objs
      if t.ctxSize != Rec.szContext then throw s!"thread {t.tid}: context size {t.ctxSize}"
      objs := ⟨s!"context:{t.tid}", t.ctxRva, t.ctxSize⟩ :: objs
  -- module list
  if let some d := findStream used ST_MODULE_LIST then
    let some ms := decodeModuleList i d | throw "module list not readable"
    for m in ms do
      let some e := stringExtent i m.nameRva | throw s!"module name at {m.nameRva} not readable"
      objs := ⟨s!"modname:{m.base}", m.nameRva, e⟩ :: objs
      if m.cvSize > 0 then objs := ⟨s!"cv:{m.base}", m.cvRva, m.cvSize⟩ :: objs
  -- memory list
  if let some d := findStream used ST_MEMORY_LIST then
    let some ms := decodeMemoryList i d | throw "memory list not readable"
    for m in ms do
      if m.size > 0 then objs := ⟨s!"mem:{m.start}", m.rva, m.size⟩ :: objs
  -- exception
  if let some d := findStream used ST_EXCEPTION then
    if d.size != Rec.szExceptionStream then throw "exception stream size"
    let some e := decodeException i d | throw "exception stream not readable"
    if e.ctxSize > 0 then
      if e.ctxSize != Rec.szContext then throw "exception context size"
      objs := ⟨"excctx", e.ctxRva, e.ctxSize⟩ :: objs
  -- system info
  if let some d := findStream used ST_SYSTEM_INFO then
    if d.size != Rec.szSystemInfo then throw "system info size"
    let some s := decodeSystemInfo i d | throw "system info not readable"
    let some e := stringExtent i s.csdRva | throw "os version string not readable"
    objs := ⟨"osversion", s.csdRva, e⟩ :: objs
  -- memory info list
  if let some d := findStream used ST_MEMORY_INFO_LIST then
    let some (hs, es, l) := decodeMemInfoList i d | throw "memory info list not readable"
    if hs != 16 || es != 48 then throw "memory info list header"
    if d.size != 16 + 48 * l.length then throw "memory info list size"
  -- thread names
  if let some d := findStream used ST_THREAD_NAMES then
    let some n := i.u32 d.rva | throw "thread names count"
    for k in List.range n do
      let some tid := i.u32 (d.rva + 4 + 12 * k) | throw "thread name record"
      let some rva := i.u64 (d.rva + 4 + 12 * k + 4) | throw "thread name record"
      let some e := stringExtent i rva | throw s!"thread name string at {rva} not readable"
      objs := ⟨s!"tname:{tid}", rva, e⟩ :: objs
  -- handles
  if let some d := findStream used ST_HANDLE_DATA then
    let some (hs, ds, l) := decodeHandles i d | throw "handle stream not readable"
    if hs != 16 || ds != 32 then throw "handle stream header"
    if d.size != 16 + 32 * l.length then throw "handle stream size"
    for hd in l do
      let some e := stringExtent i hd.objectNameRva | throw "handle name not readable"
      objs := ⟨s!"hname:{hd.handle}", hd.objectNameRva, e⟩ :: objs
  -- linker debug data
  if let some d := findStream used ST_LINUX_DSO_DEBUG then
    if d.size < Rec.szDsoDebug then throw "dso debug stream size"
    let some dd := decodeDsoDebug i d | throw "dso debug not readable"
    if dd.count > 0 then
      objs := ⟨"linkmaps", dd.mapRva, 20 * dd.count⟩ :: objs
      for m in dd.maps do
        let some e := stringExtent i m.nameRva | throw "link map name not readable"
        objs := ⟨s!"lmname:{m.addr}", m.nameRva, e⟩ :: objs
  return objs

/-- two descriptors may intentionally name the same blob -/
def aliasOk (a b : Obj) : Bool :=
  a.rva == b.rva && a.size == b.size &&
  ((a.kind.startsWith "stack:" && b.kind.startsWith "mem:") || (a.kind.startsWith "mem:" && b.kind.startsWith "stack:") ||
   (a.kind == "excctx" && b.kind.startsWith "context:") || (a.kind.startsWith "context:" && b.kind == "excctx"))

def overlaps (a b : Obj) : Bool := a.rva < b.rva + b.size && b.rva < a.rva + a.size

/-- first pair of overlapping objects that is not an intentional alias (objects sorted by rva) -/
def firstOverlap : List Obj → Option (Obj × Obj)
  | [] => none
  | a :: rest =>
    match rest.find? (fun b => b.rva < a.rva + a.size && !aliasOk a b) with
    | some b => some (a, b)
    | none => firstOverlap rest

/-- **the C01 predicate**: `none` = structurally sound -/
def wfImage (i : Img) : Option String :=
  match collectObjects i with
  | .error e => some e
  | .ok objs =>
    let objs := objs.filter (fun o => o.size > 0)
    match objs.find? (fun o => o.rva + o.size > i.len) with
    | some o => some s!"object {o.kind} [{o.rva},{o.rva + o.size}) outside the image ({i.len})"
    | none =>
      let sorted := (objs.toArray.qsort (fun a b => a.rva < b.rva || (a.rva == b.rva && a.size < b.size))).toList
      match firstOverlap sorted with
      | some (a, b) => some s!"objects overlap: {a.kind} [{a.rva},{a.rva + a.size}) and {b.kind} [{b.rva},{b.rva + b.size})"
      | none => none

end Mdw
