//! C17: the three remote-memory read strategies of MemReader against pattern regions of a live
//! target that end at an unmapped page, a PROT_NONE page or another readable page.
use crate::live::*;
use crate::rng::{hex, Rng};
use minidump_writer::mem_reader::MemReader;
use std::num::NonZeroUsize;

/// One reader, several reads, while the target's memory changes: a busy thread keeps a counter in memory; every read of
/// it through the same reader must return the value the target holds *now* (it never decreases, and it has advanced
/// after the thread ran for a while) — a strategy must not answer from an earlier snapshot.
pub fn generate_fresh(seed: u64, tier: &str, out: &mut dyn std::io::Write) {
    let n = if tier == "thorough" { 12 } else { 3 };
    for i in 0..n {
        let mut r = Rng::for_case(seed, 1717, i);
        let t = match Target::spawn(&["-t".to_string(), "0".to_string(), "-s".to_string(), "2".to_string()]) {
            Ok(t) => t,
            Err(_) => continue,
        };
        let th = t.threads.iter().find(|x| x.spin).unwrap();
        let caddr = th.regs_addr + 384;
        for strat in ["v", "f"] {
            let mut mr = match strat {
                "v" => MemReader::for_virtual_mem(t.pid),
                _ => match MemReader::for_file(t.pid) { Ok(m) => m, Err(_) => continue },
            };
            // reads of different lengths and offsets around the counter, all within one 8 KiB window; each read is
            // bracketed by two independent observations of the counter (it only grows): whatever the scheduling, a
            // faithful reader returns a value between them
            let mut triples: Vec<String> = Vec::new();
            let mut ok = true;
            let mut last = t.read_u64(caddr);
            for _k in 0..6 {
                // give the busy thread a chance to move on since the previous read (bounded; no progress is no error)
                let deadline = std::time::Instant::now() + std::time::Duration::from_millis(200);
                while t.read_u64(caddr) == last && std::time::Instant::now() < deadline {
                    std::thread::sleep(std::time::Duration::from_micros(200));
                }
                let before = r.below(3) * 8;
                let len = 8 + before + r.below(4) * 8;
                let lo = t.read_u64(caddr);
                let res = mr.read_to_vec((caddr - before) as usize, NonZeroUsize::new(len as usize).unwrap());
                let hi = t.read_u64(caddr);
                match res {
                    Ok(v) if v.len() as u64 == len => {
                        let off = before as usize;
                        let val = u64::from_le_bytes(v[off..off + 8].try_into().unwrap());
                        triples.push(format!("{}:{}:{}", lo, val, hi));
                        last = hi;
                    }
                    _ => { ok = false; break; }
                }
            }
            writeln!(out, "C17 f{}-{}-{} kind=fresh strat={} result={} obs={}", seed, i, strat, strat, if ok { "ok" } else { "err" }, triples.join(",")).unwrap();
        }
    }
}

pub fn generate(seed: u64, tier: &str, out: &mut dyn std::io::Write) {
    generate_fresh(seed, tier, out);
    // reads of more than a thousand pages in one request (readable throughout): every strategy returns all of it
    for big in 0..(if tier == "thorough" { 3 } else { 1 }) {
        let mut r = Rng::for_case(seed, 1717, big);
        let t = match Target::spawn(&["-r".to_string(), "4400000:r".to_string()]) {
            Ok(t) => t,
            Err(_) => continue,
        };
        let attached = minidump_writer::ptrace_dumper::PtraceDumper::suspend_thread(t.pid).is_ok();
        let reg = &t.desc["regions"][0];
        let (addr, len) = (reg["addr"].as_u64().unwrap(), reg["len"].as_u64().unwrap());
        let start = addr + *r.pick(&[0u64, 3, 4096, 4099]);
        let n = *r.pick(&[4194304u64 + 1, 4194304 + 4096 + 100, 4300000]);
        let n = n.min(addr + len - start);
        for strat in ["v", "f", "p", "a"] {
            if strat == "p" && !attached {
                continue;
            }
            let mut mr = match strat {
                "v" => MemReader::for_virtual_mem(t.pid),
                "a" => MemReader::new(t.pid),
                "f" => match MemReader::for_file(t.pid) { Ok(m) => m, Err(_) => continue },
                _ => MemReader::for_ptrace(t.pid),
            };
            let res = mr.read_to_vec(start as usize, NonZeroUsize::new(n as usize).unwrap());
            let (result, sum) = match res {
                Ok(v) => {
                    let mut h: u64 = 0xcbf29ce484222325;
                    for b in &v {
                        h = (h ^ *b as u64).wrapping_mul(0x100000001b3);
                    }
                    (format!("ok:{}", v.len()), h)
                }
                Err(_) => ("err".to_string(), 0),
            };
            writeln!(out, "C17 b{}-{}-{} kind=bigread strat={} src={} len={} region={}:{}:r page={} result={} sum={}", seed, big, strat, strat, start, n, addr, len, t.page, result, sum).unwrap();
        }
        if attached {
            let _ = minidump_writer::ptrace_dumper::PtraceDumper::resume_thread(t.pid);
        }
    }
    let rounds = if tier == "thorough" { 12 } else { 2 };
    for round in 0..rounds {
        let mut r = Rng::for_case(seed, 17, round);
        // regions: several lengths, each kind
        let mut args: Vec<String> = Vec::new();
        for kind in ["u", "n", "r"] {
            for len in [4096u64 + 37, 64, 9000] {
                let _ = len;
                args.push("-r".into());
                args.push(format!("{}:{}", *r.pick(&[64u64, 4096 + 37, 9000, 65536 + 5]), kind));
            }
        }
        let t = match Target::spawn(&args) {
            Ok(t) => t,
            Err(e) => {
                writeln!(out, "C17 m{}-{} kind=spawnfail why={}", seed, round, e.replace(' ', "_")).unwrap();
                continue;
            }
        };
        // ptrace strategy needs a stopped tracee
        let attached = minidump_writer::ptrace_dumper::PtraceDumper::suspend_thread(t.pid).is_ok();
        let regions: Vec<(u64, u64, String)> = t.desc["regions"]
            .as_array()
            .unwrap()
            .iter()
            .map(|x| (x["addr"].as_u64().unwrap(), x["len"].as_u64().unwrap(), x["kind"].as_str().unwrap().to_string()))
            .collect();
        let per = if tier == "thorough" { 400 } else { 250 };
        let mut idx = 0u64;
        for (addr, len, kind) in &regions {
            let end = addr + len; // page aligned end of the pattern pages
            for _ in 0..per {
                // ranges inside, ending exactly at the end, and crossing the end
                let n = match r.below(6) {
                    0 => r.range(1, 24),
                    1 => *r.pick(&[4095u64, 4096, 4097, 8192, 8191]),
                    2 => r.range(1, (*len).min(70000)),
                    _ => r.range(1, 64),
                };
                let n = n.min(*len + 16);
                // the first page of the pattern pages starts right after an unmapped page
                let mstart = end - ((*len + t.page - 1) / t.page) * t.page;
                let head = r.chance(1, 6);
                let n = if head { r.range(1, 17) } else { n };
                let start = if head { mstart + r.below(9) } else { match r.below(5) {
                    0 => end - n.min(*len),                                  // ends exactly at the end
                    1 => (end + r.range(1, 9)).saturating_sub(n).max(*addr), // crosses the end by 1..9 bytes
                    2 => end - 1 - r.below(n.min(*len)),                     // crosses by more
                    _ => addr + r.below(len - n.min(*len) + 1),              // inside
                } };
                // stay within the pattern pages and the one trailing page (what lies beyond is not described)
                let n = if start + n > end + t.page { end + t.page - start } else { n };
                for strat in ["v", "f", "p", "a"] {
                    if strat == "p" && !attached {
                        continue;
                    }
                    let mut mr = match strat {
                        "v" => MemReader::for_virtual_mem(t.pid),
                        // no strategy chosen: what `copy_from_process` does (a fresh reader for every call)
                        "a" => MemReader::new(t.pid),
                        "f" => match MemReader::for_file(t.pid) { Ok(m) => m, Err(_) => continue },
                        _ => MemReader::for_ptrace(t.pid),
                    };
                    let res = mr.read_to_vec(start as usize, NonZeroUsize::new(n as usize).unwrap());
                    let (result, data) = match res {
                        Ok(v) => (format!("ok:{}", v.len()), hex(&v)),
                        Err(_) => ("err".to_string(), "-".to_string()),
                    };
                    writeln!(
                        out,
                        "C17 m{}-{}-{} kind=read strat={} src={} len={} region={}:{}:{} page={} result={} data={}{}",
                        seed, round, idx, strat, start, n, addr, len, kind, t.page, result, data, if head { " head=1" } else { "" }
                    )
                    .unwrap();
                    idx += 1;
                }
            }
        }
        if attached {
            let _ = minidump_writer::ptrace_dumper::PtraceDumper::resume_thread(t.pid);
        }
    }
}
