#!/bin/bash
# process_seed.sh <round> <Cxx>…: confirm each finished seed in its scratch worktree, run the check against it, keep the logs
R=$1; shift
for P in "$@"; do
  bash /verif/lib/confirm_seed.sh $P 2>&1 | tail -1 | tee /tmp/mut2/confirm-$R-$P.log
  bash /verif/lib/try_seed.sh /tmp/mut2/$P-out/patch.diff $P 2>&1 | tail -4
done
