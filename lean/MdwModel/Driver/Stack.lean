import MdwModel.Driver.Common
import MdwModel.Model.Stack
namespace Mdw.Drv.Stack
open Mdw Mdw.Drv

def parseMaps (s : String) : Option (List Mapping) :=
  (splitList s ";").mapM (fun t =>
    match t.splitOn "," with
    | [a, sz, ss, se, p] => do
      some ⟨← a.toNat?, ← sz.toNat?, ← ss.toNat?, ← se.toNat?, 0, ← p.toNat?, some []⟩
    | _ => none)

def wordAt (bs : Bytes) (off : Nat) : Nat := unle ((bs.drop off).take 8)

/-- C12 predicate on the implementation's output, word by word -/
def c12Pred (ms : List Mapping) (sp spOff : Nat) (inp out : Bytes) : Option String := Id.run do
  if out.length != inp.length then return some "length changed"
  let off := min (align8 spOff) inp.length
  if (out.take off).any (· != 0) then return some "a byte below the stack pointer is not zero"
  let nwords := (inp.length - off) / 8
  let tailStart := off + 8 * nwords
  if (out.drop tailStart).any (· != 0) then return some "trailing partial word not zero"
  let sm := findMappingNoBias ms sp
  for k in List.range nwords do
    let wi := wordAt inp (off + 8 * k)
    let wo := wordAt out (off + 8 * k)
    let qualifies := smallInt wi ||
      (match sm with | some m => m.containsAddress wi | none => false) ||
      ms.any (fun m => m.isExec && m.containsAddress wi)
    if wo == wi then
      if !qualifies && wi != DEFACED then
        return some s!"word {k} = {wi} survived but is neither a small integer, a stack pointer nor a code pointer"
    else
      if wo != DEFACED then return some s!"word {k} replaced by {wo}, not the sentinel"
      if qualifies then return some s!"qualifying word {k} = {wi} was defaced"
  return none

def run12 (kv : List (String × String)) : Res := Id.run do
  let some ms := (get kv "maps").bind parseMaps | return .bad "maps"
  let some sp := getNat kv "sp" | return .bad "sp"
  let some spOff := getNat kv "spoff" | return .bad "spoff"
  let some inp := getHex kv "in" | return .bad "in"
  let some out := getHex kv "out" | return .bad "out"
  let some result := get kv "result" | return .bad "result"
  let mut tags : List String := [s!"result.{result}"]
  if align8 spOff > inp.length then tags := "len<offset" :: tags
  if (inp.length - min (align8 spOff) inp.length) % 8 != 0 then tags := "partial.tail" :: tags
  let model := sanitize ms inp sp spOff
  -- word classes present (coverage + distinctness)
  let off := min (align8 spOff) inp.length
  let ws := wordsOf ((inp.length - off) / 8 + 1) (inp.drop off)
  let sm := findMappingNoBias ms sp
  let mut classes : List String := []
  for w in ws do
    let c := if w ≤ 4096 then "small+" else if w ≥ 2 ^ 64 - 4096 then "small-"
      else if (match sm with | some m => m.containsAddress w | none => false) then "stack"
      else if ms.any (fun m => m.isExec && m.containsAddress w) then "code"
      else if couldHit ms (w / 2 ^ 21) then "prefilter.falsepos"
      else "other"
    if !classes.contains c then classes := c :: classes
  tags := classes.map (fun c => "word." ++ c) ++ tags
  match model with
  | .ok m =>
    if result != "ok" then return .mismatch s!"result model=ok impl={result}" tags
    if m != out then return .mismatch s!"sanitized stack model={hex m} impl={hex out}" tags
  | o =>
    if result == "ok" then return .mismatch s!"result model={o.cls} impl=ok" tags
  if result == "panic" then return .propfail "sanitize_stack_copy panicked" tags
  if result == "ok" then
    match c12Pred ms sp spOff inp out with
    | some why => return .propfail why tags
    | none => pure ()
  let shape := s!"{ms.length}/{inp.length}/{spOff % 8}/{classes}"
  return .ok tags (if classes.length ≥ 3 then some shape else none)

/-- C06 (get_stack_info) predicate on the implementation's result -/
def c06InfoPred (ms : List Mapping) (page sp : Nat) (res : Option (Nat × Nat)) : Option String := Id.run do
  let sp0 := sp - sp % page
  match findMapping ms sp0 with
  | some m =>
    if m.isReadable || m.isWritable then
      -- SP lies in accessible memory: region starts on SP's page (or at the mapping start when the
      -- page is outside the system range), contains SP, extends to the end of the mapping
      match res with
      | none => return some "no region although the stack pointer is in an accessible mapping"
      | some (v, l) =>
        if !(v ≤ sp && sp < v + l) then return some s!"region [{v},{v + l}) does not contain sp {sp}"
        if v + l != m.start + m.size then return some "region does not extend to the end of the containing mapping"
        if v != sp0 && v != m.start then return some "region starts neither on the stack pointer's page nor at the mapping start"
        return none
    else pure ()
  | none => pure ()
  -- guard page / unmapped: first may-be-stack mapping met by the page walk within the distance
  match res with
  | none => return none
  | some (v, l) =>
    if v < sp0 then return some "region starts below the stack pointer's page"
    if v > sp0 + GUARD_DISTANCE + page then return some "region starts beyond the guard distance"
    match findMapping ms v with
    | some m =>
      if !(m.isReadable || m.isWritable) then return some "region in an inaccessible mapping"
      if v + l != m.start + m.size then return some "region does not extend to the end of its mapping"
      return none
    | none => return some "region not inside a mapping"

def run06info (kv : List (String × String)) : Res := Id.run do
  let some ms := (get kv "maps").bind parseMaps | return .bad "maps"
  let some sp := getNat kv "sp" | return .bad "sp"
  let some page := getNat kv "page" | return .bad "page"
  let some result := get kv "result" | return .bad "result"
  let model := getStackInfo ms page sp
  let mcls := match model with
    | .ok (v, l) => s!"ok:{v}:{l}"
    | o => if o.isPanic then "panic" else if o.cls == "fuel" then "fuel" else "err"
  let sp0 := sp - sp % page
  let mut tags : List String := [s!"result.{(result.splitOn ":").head!}"]
  let direct := mayBeStack (findMapping ms sp0)
  tags := (if direct then "sp.mapped" else if (findMapping ms sp0).isSome then "sp.guard" else "sp.unmapped") :: tags
  if sp0 + GUARD_DISTANCE ≥ 2 ^ 64 then tags := "sp.top" :: tags
  if mcls != result then return .mismatch s!"get_stack_info model={mcls} impl={result}" tags
  if result == "panic" then return .propfail "get_stack_info panicked" tags
  let res := match result.splitOn ":" with
    | ["ok", v, l] => match v.toNat?, l.toNat? with | some v, some l => some (v, l) | _, _ => none
    | _ => none
  match c06InfoPred ms page sp res with
  | some why => return .propfail why tags
  | none => pure ()
  return .ok tags (if ms.length ≥ 1 then some s!"{tags}/{sp % page}/{ms.length}" else none)

def run20scan (kv : List (String × String)) : Res := Id.run do
  let some low := getNat kv "low" | return .bad "low"
  let some high := getNat kv "high" | return .bad "high"
  let some spOff := getNat kv "spoff" | return .bad "spoff"
  let some stack := getHex kv "stack" | return .bad "stack"
  let some result := get kv "result" | return .bad "result"
  let model := stackHasPointer low high stack spOff
  let mut tags : List String := [s!"scan.{result}"]
  let body := stack.drop (align8 spOff)
  let ws := wordsOf (body.length / 8 + 1) body
  if ws.contains high then tags := "word.eq.high" :: tags
  if ws.contains low then tags := "word.eq.low" :: tags
  if stack.length < 8 then tags := "len<8" :: tags
  if s!"{model}" != result then return .mismatch s!"stack_has_pointer_to_mapping model={model} impl={result}" tags
  return .ok tags (if ws.length ≥ 2 then some s!"{spOff % 8}/{ws.length}/{ws.map (fun w => decide (low ≤ w ∧ w < high))}" else none)

end Mdw.Drv.Stack
