/-
  Model of src/dir_section.rs (`DirSection`) over a modelled destination (`Write + Seek`).

  The destination is a byte vector with a position (the semantics of `Cursor<Vec<u8>>` and of a
  regular file: `write` overwrites at `pos`, zero-fills a gap if `pos` is past the end, advances).
  Every trait-level call (`seek`, `write`) consumes one entry of a *script* of responses, so a
  failure or a short write can be placed at any call; theorems quantify over all scripts.
-/
import MdwModel.Model.Buffer
namespace Mdw

inductive Resp where
  | ok
  | short (m : Nat)   -- a `write` accepts only `m` bytes (m = 0: `WriteZero` error in write_all)
  | fail              -- the call returns an I/O error and has no effect
  deriving Repr, DecidableEq

abbrev Script := Nat → Resp

structure Dest where
  content : Bytes
  pos : Nat
  calls : Nat := 0
  deriving Repr, DecidableEq

namespace Dest

/-- raw effect of writing `bs` at the current position -/
def put (d : Dest) (bs : Bytes) : Dest :=
  let base := if d.pos > d.content.length then d.content ++ zeros (d.pos - d.content.length) else d.content
  { d with content := base.take d.pos ++ bs ++ base.drop (d.pos + bs.length), pos := d.pos + bs.length }

/-- `Seek::seek(SeekFrom::Start(n))` / `stream_position` (which is `seek(Current(0))`) -/
def seek (sc : Script) (d : Dest) (n : Nat) : Dest × Bool :=
  match sc d.calls with
  | .fail => ({ d with calls := d.calls + 1 }, false)
  | _ => ({ d with pos := n, calls := d.calls + 1 }, true)

def streamPosition (sc : Script) (d : Dest) : Dest × Option Nat :=
  match sc d.calls with
  | .fail => ({ d with calls := d.calls + 1 }, none)
  | _ => ({ d with calls := d.calls + 1 }, some d.pos)

/-- `Write::write_all`: loops over `write` until everything is written, an error, or `Ok(0)`. -/
def writeAllFuel (sc : Script) : Nat → Dest → Bytes → Dest × Bool
  | 0, d, bs => (d, bs.isEmpty)
  | fuel+1, d, bs =>
    if bs.isEmpty then (d, true) else
    match sc d.calls with
    | .ok => ({ d.put bs with calls := d.calls + 1 }, true)
    | .fail => ({ d with calls := d.calls + 1 }, false)
    | .short m =>
      if m = 0 then ({ d with calls := d.calls + 1 }, false) else
      let k := min m bs.length
      writeAllFuel sc fuel { d.put (bs.take k) with calls := d.calls + 1 } (bs.drop k)

def writeAll (sc : Script) (d : Dest) (bs : Bytes) : Dest × Bool :=
  writeAllFuel sc (bs.length + 1) d bs

end Dest

structure DirSec where
  currIdx : Nat
  sec : Arr
  startOff : Nat
  lastWritten : Nat
  deriving Repr, DecidableEq

/-- state threaded through the directory-section operations -/
structure DS where
  buf : Buf
  dest : Dest
  dir : DirSec
  deriving Repr, DecidableEq

/-- result of an operation: `none` = panic; `(s, true)` = `Ok`, `(s, false)` = `Err` -/
abbrev DSRes := Option (DS × Bool)

/-- `DirSection::new(buffer, index_length, destination)` (directory element size 12) -/
def DirSec.new (sc : Script) (b : Buf) (n : Nat) (d : Dest) : DS × Bool :=
  let (b', arr) := Arr.allocArray b n 12
  let (d', p) := d.streamPosition sc
  match p with
  | some p => (⟨b', d', ⟨0, arr, p, 0⟩⟩, true)
  | none => (⟨b', d', ⟨0, arr, 0, 0⟩⟩, false)

/-- `dump_dir_entry(buffer, dirent)` with `dirent` given by its 12 serialised bytes -/
def dumpDirEntry (sc : Script) (s : DS) (e : Bytes) : DSRes :=
  match s.dir.sec.setValueAt s.buf e s.dir.currIdx with
  | none => none
  | some b1 =>
    let (d1, cur) := s.dest.streamPosition sc
    match cur with
    | none => some (⟨b1, d1, s.dir⟩, false)
    | some cur =>
      match s.dir.sec.locationOfIndex s.dir.currIdx with
      | none => none
      | some loc =>
        let dir1 := { s.dir with currIdx := s.dir.currIdx + 1 }
        let (d2, ok) := d1.seek sc (s.dir.startOff + loc.rva)
        if !ok then some (⟨b1, d2, dir1⟩, false) else
        -- `&buffer[start..end]`
        if loc.rva + loc.size > b1.len then none else
        let (d3, ok) := d2.writeAll sc ((b1.inner.drop loc.rva).take loc.size)
        if !ok then some (⟨b1, d3, dir1⟩, false) else
        let (d4, ok) := d3.seek sc cur
        some (⟨b1, d4, dir1⟩, ok)

/-- `write_to_file(buffer, dirent)` — the order after the C10 repair: pending bytes first,
    then the directory entry. -/
def writeToFile (sc : Script) (s : DS) (e : Option Bytes) : DSRes :=
  if s.dir.lastWritten > s.buf.len then none else
  let (d1, ok) := s.dest.writeAll sc (s.buf.inner.drop s.dir.lastWritten)
  if !ok then some (⟨s.buf, d1, s.dir⟩, false) else
  let s1 : DS := ⟨s.buf, d1, { s.dir with lastWritten := s.buf.len }⟩
  match e with
  | none => some (s1, true)
  | some e => dumpDirEntry sc s1 e

/-- what the caller (a stream writer) does to the image between directory-section calls -/
inductive DOp where
  | grow (bs : Bytes)                       -- append
  | patch (off : Nat) (v : Bytes)           -- fill a previously reserved slot
  | flush (e : Option Bytes)                -- `write_to_file`
  deriving Repr

def dstep (sc : Script) (s : DS) : DOp → DSRes
  | .grow bs => some (⟨s.buf.writeAll bs, s.dest, s.dir⟩, true)
  | .patch off v => (s.buf.writeAt off v).map (fun b => (⟨b, s.dest, s.dir⟩, true))
  | .flush e => writeToFile sc s e

/-- run a history; stops at the first `Err` (the dump aborts) or panic -/
def drun (sc : Script) (s : DS) : List DOp → DSRes
  | [] => some (s, true)
  | op :: ops => match dstep sc s op with
    | none => none
    | some (s', false) => some (s', false)
    | some (s', true) => drun sc s' ops

end Mdw

namespace Mdw

/-- Destination states after each completed trait-level call of `dump_dir_entry`
    (same control flow as `dumpDirEntry`; used for the crash-point property C10). -/
def dirEntryStates (sc : Script) (s : DS) (e : Bytes) : List Dest :=
  match s.dir.sec.setValueAt s.buf e s.dir.currIdx with
  | none => []
  | some b1 =>
    let (d1, cur) := s.dest.streamPosition sc
    d1 :: match cur with
    | none => []
    | some cur =>
      match s.dir.sec.locationOfIndex s.dir.currIdx with
      | none => []
      | some loc =>
        let (d2, ok) := d1.seek sc (s.dir.startOff + loc.rva)
        d2 :: if !ok then [] else
        if loc.rva + loc.size > b1.len then [] else
        let (d3, ok) := d2.writeAll sc ((b1.inner.drop loc.rva).take loc.size)
        d3 :: if !ok then [] else [(d3.seek sc cur).1]

/-- Destination states after each completed call of `write_to_file` (for scripts without short
    writes every `write_all` is at most one call). -/
def flushStates (sc : Script) (s : DS) (e : Option Bytes) : List Dest :=
  if s.dir.lastWritten > s.buf.len then [] else
  let (d1, ok) := s.dest.writeAll sc (s.buf.inner.drop s.dir.lastWritten)
  -- `write_all` of an empty slice makes no call at all
  (if (s.buf.inner.drop s.dir.lastWritten).isEmpty then [] else [d1]) ++ if !ok then [] else
  match e with
  | none => []
  | some e => dirEntryStates sc ⟨s.buf, d1, { s.dir with lastWritten := s.buf.len }⟩ e

end Mdw
