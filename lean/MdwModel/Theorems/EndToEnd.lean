/-
  From the target to the image, for thread stacks: the gathering step of `fill_thread_stack`
  (src/linux/sections/thread_list_stream.rs) composed from the models of its parts —
  `get_stack_info` (C06), the size-limit shortening (C06), `copy_from_process` (an oracle for the target's memory,
  C17), the unreferenced-stack rule (C20), `sanitize_stack_copy` (C12) — and then placed into the image by the
  whole-image model (Theorems/Image.lean).

    E2E_stack_contains_sp   a thread whose stack pointer lies in an accessible mapping and whose stack is kept gets a
                            captured region that contains the stack pointer, starts on its page or is a shortened
                            (≤ 2 KiB, only late threads under a limit) part of it — and, without sanitization, whose
                            bytes are the target's
    E2E_stack_in_image      … and the image built from that content stores exactly this region: the thread record's
                            stack range is (start, length) of the gathered region and the image bytes at the stored
                            location are the gathered bytes; the region is also a memory-list block at that location
    E2E_skip_iff            with skipping enabled the stack is kept iff ip or an aligned word at/above sp in the
                            (shortened) copy points into the principal mapping
-/
import MdwModel.Theorems.Image
import MdwModel.Model.Gather
import MdwModel.Generated.Source
import MdwModel.Theorems.C06
import MdwModel.Theorems.C20
import MdwModel.Theorems.C12
import MdwModel.Theorems.C08
namespace Mdw

/-- **Proof obligation over the regenerated source.** The steps of `fill_thread_stack`, in the order the Rust text has
    them now, are the steps of `gatherStack` in the model's order (or the function is no longer recognisable to the
    extractor, in which case the live correspondence alone carries the tie). -/
theorem gather_order_agrees : Src.fillThreadStackSteps = none ∨ Src.fillThreadStackSteps = some gatherSteps := by decide

/-- **Proof obligation over the regenerated source.** The thread-list loop gathers the crash context's thread without a
    stack-length cap (`gatherThread` passes `isCrash = true`, which `maxStackLen` turns into "no cap") — or the loop is
    no longer recognisable to the extractor. -/
theorem gather_crash_unlimited : Src.crashThreadUnlimited = none ∨ Src.crashThreadUnlimited = some true := by decide

/-- the reader returns what was asked for, from the target's memory `mem` -/
def ReadsExactly (env : GEnv) (mem : Nat → UInt8) : Prop :=
  ∀ a n bs, env.read a n = some bs → bs = (List.range n).map (fun k => mem (a + k))

theorem range_map_get (n : Nat) (f : Nat → UInt8) (k : Nat) (hk : k < n) : ((List.range n).map f)[k]? = some (f k) := by
  simp [hk]

/-- what a recorded stack tells about the run that recorded it -/
theorem gather_inv (env : GEnv) (cfg : GCfg) (idx n currPos : Nat) (isCrash : Bool) (sp ip start : Nat) (bytes : Bytes)
    (hg : gatherStack env cfg idx n currPos isCrash sp ip = .ok (some (start, bytes))) :
    ∃ v l bs, getStackInfo env.ms env.page sp = .ok (v, l) ∧
      env.read (capRegion v l sp (maxStackLen cfg.limit (extraLimit cfg.limit n currPos) idx isCrash)).1
        (capRegion v l sp (maxStackLen cfg.limit (extraLimit cfg.limit n currPos) idx isCrash)).2 = some bs ∧
      start = (capRegion v l sp (maxStackLen cfg.limit (extraLimit cfg.limit n currPos) idx isCrash)).1 ∧
      includeStack cfg.skip cfg.principal ip bs (sp - start) = true ∧
      (cfg.sanitize = false → bytes = bs) ∧
      (cfg.sanitize = true → sanitize env.ms bs sp (sp - start) = .ok bytes) := by
  unfold gatherStack at hg
  split at hg
  · rename_i v l hgs
    refine ⟨v, l, ?_⟩
    simp only at hg
    split at hg
    · cases hg
    · rename_i bs hrd
      refine ⟨bs, hgs, hrd, ?_⟩
      split at hg
      · cases hg
      · rename_i hinc
        have hinc' : includeStack cfg.skip cfg.principal ip bs
            (sp - (capRegion v l sp (maxStackLen cfg.limit (extraLimit cfg.limit n currPos) idx isCrash)).1) = true := by
          simpa using hinc
        split at hg
        · rename_i hs
          split at hg
          · rename_i b hb
            injection hg with hg; injection hg with hg; injection hg with h1 h2
            subst h1; subst h2
            exact ⟨rfl, hinc', (fun h => by rw [hs] at h; cases h), (fun _ => hb)⟩
          · cases hg
          · cases hg
          · cases hg
        · rename_i hs
          injection hg with hg; injection hg with hg; injection hg with h1 h2
          subst h1; subst h2
          exact ⟨rfl, hinc', fun _ => rfl, fun h => absurd h hs⟩
  · cases hg

/-- the (possibly shortened) region stays inside whatever contains the unshortened one -/
theorem capRegion_within (v l sp : Nat) (cap : Option Nat) (lo hi : Nat) (h1 : lo ≤ v) (h2 : v + l ≤ hi)
    (hin : v ≤ sp ∧ sp < v + l) (hc : ∀ c, cap = some c → 0 < c) :
    lo ≤ (capRegion v l sp cap).1 ∧ (capRegion v l sp cap).1 + (capRegion v l sp cap).2 ≤ hi := by
  cases cap with
  | none => simp only [capRegion]; omega
  | some c =>
    obtain ⟨c1, c2, _⟩ := C06_cap v l sp c (hc c rfl) hin
    omega

/-- … for requests inside `[lo, hi)` (what a reader over paged memory guarantees where the pages are readable:
    Theorems/EndToEndMem.lean) -/
def ReadsExactlyIn (env : GEnv) (mem : Nat → UInt8) (lo hi : Nat) : Prop :=
  ∀ a n bs, lo ≤ a → a + n ≤ hi → env.read a n = some bs → bs = (List.range n).map (fun k => mem (a + k))

theorem ReadsExactly.within {env : GEnv} {mem : Nat → UInt8} (h : ReadsExactly env mem) (lo hi : Nat) :
    ReadsExactlyIn env mem lo hi := fun a n bs _ _ hrd => h a n bs hrd

/-- **End to end (stack region).** -/
theorem E2E_stack_contains_sp (env : GEnv) (cfg : GCfg) (mem : Nat → UInt8) (idx n currPos : Nat) (isCrash : Bool) (sp ip : Nat)
    (m : Mapping) (start : Nat) (bytes : Bytes)
    (hp : 0 < env.page) (hw : HullOk env.ms) (hr : ReadsExactlyIn env mem m.start (m.start + m.size))
    (hf : findMapping env.ms (sp - sp % env.page) = some m) (hs : mayBeStack (some m) = true) (hsp : sp < m.start + m.size)
    (hsan : cfg.sanitize = true → WfMaps env.ms ∧ sp + 7 < 2 ^ 64)
    (hg : gatherStack env cfg idx n currPos isCrash sp ip = .ok (some (start, bytes))) :
    start ≤ sp ∧ sp < start + bytes.length ∧ start + bytes.length ≤ m.start + m.size ∧
    -- unsanitized: the bytes are the target's
    (cfg.sanitize = false → ∀ k, k < bytes.length → bytes[k]? = some (mem (start + k))) ∧
    -- sanitized: nothing below the (aligned) stack pointer survives
    (cfg.sanitize = true → ∀ k, k < min (align8 (sp - start)) bytes.length → bytes[k]? = some 0) ∧
    -- not shortened: from the stack pointer's page (or the mapping's start) to the mapping's end
    (maxStackLen cfg.limit (extraLimit cfg.limit n currPos) idx isCrash = none →
      start + bytes.length = m.start + m.size ∧ (start = sp - sp % env.page ∨ start = m.start)) ∧
    -- shortened only under a limit, at list position ≥ 20, never the crash-context thread, to at most 2 KiB
    (start + bytes.length < m.start + m.size →
      cfg.limit.isSome ∧ LIMIT_BASE_THREAD_COUNT ≤ idx ∧ isCrash = false ∧ bytes.length ≤ LIMIT_MAX_EXTRA_THREAD_STACK_LEN) := by
  obtain ⟨v, l, hgs, hv1, hv2, hv3, hv4⟩ := C06_mapped env.ms env.page sp m hp hw hf hs hsp
  obtain ⟨v', l', bs, hgs', hrd, hstart, _, hraw, hsz⟩ := gather_inv env cfg idx n currPos isCrash sp ip start bytes hg
  rw [hgs] at hgs'
  injection hgs' with hgs'; injection hgs' with e1 e2
  subst e1; subst e2
  have hms := (findMapping_some hf).2.1
  have hvlo : m.start ≤ v := by rcases hv4 with h | h <;> omega
  have hin : m.start ≤ (capRegion v l sp (maxStackLen cfg.limit (extraLimit cfg.limit n currPos) idx isCrash)).1 ∧
      (capRegion v l sp (maxStackLen cfg.limit (extraLimit cfg.limit n currPos) idx isCrash)).1 +
        (capRegion v l sp (maxStackLen cfg.limit (extraLimit cfg.limit n currPos) idx isCrash)).2 ≤ m.start + m.size := by
    cases hcap : maxStackLen cfg.limit (extraLimit cfg.limit n currPos) idx isCrash with
    | none => simp only [capRegion]; omega
    | some c =>
      obtain ⟨hc2048, _, _, _, _, _⟩ := C06_only_extra_threads_shortened _ _ _ _ _ _ hcap
      obtain ⟨c1, c2, _⟩ := C06_cap v l sp c (by omega) ⟨hv1, hv2⟩
      omega
  have hbs := hr _ _ _ hin.1 hin.2 hrd
  have hlen0 : bs.length = (capRegion v l sp (maxStackLen cfg.limit (extraLimit cfg.limit n currPos) idx isCrash)).2 := by
    rw [hbs]; simp
  -- the recorded bytes have the length of the copy
  have hlenb : bytes.length = bs.length ∧
      (cfg.sanitize = true → ∀ k, k < min (align8 (sp - start)) bytes.length → bytes[k]? = some 0) := by
    cases hsn : cfg.sanitize with
    | false => exact ⟨by rw [hraw hsn], fun h => by cases h⟩
    | true =>
      obtain ⟨hwf, hsp7⟩ := hsan hsn
      have hpre : C12Pre env.ms (sp - start) := ⟨hwf, by omega⟩
      obtain ⟨out, ho, hz, _⟩ := C12_zero_regions env.ms bs sp (sp - start) hpre
      obtain ⟨out', ho', hl'⟩ := C12_len_kept env.ms bs sp (sp - start) hpre
      rw [hsz hsn] at ho ho'
      injection ho with ho; injection ho' with ho'
      subst ho
      subst ho'
      exact ⟨hl', fun _ k hk => hz k (by rw [← hl']; exact hk)⟩
  obtain ⟨hlb, hzero⟩ := hlenb
  have hcontent : cfg.sanitize = false → ∀ k, k < bytes.length → bytes[k]? = some (mem (start + k)) := by
    intro hsn k hk
    rw [hraw hsn] at hk ⊢
    rw [hstart]
    rw [hbs]; exact range_map_get _ _ _ (by omega)
  cases hcap : maxStackLen cfg.limit (extraLimit cfg.limit n currPos) idx isCrash with
  | none =>
    simp only [hcap, capRegion] at hlen0 hstart
    subst hstart
    exact ⟨hv1, by omega, by omega, hcontent, hzero, fun _ => ⟨by omega, hv4⟩, fun hlt => by omega⟩
  | some c =>
    obtain ⟨hc2048, hidx, hcr, lim, hlim, _⟩ := C06_only_extra_threads_shortened _ _ _ _ _ _ hcap
    have hc0 : 0 < c := by omega
    have hcapr := C06_cap v l sp c hc0 ⟨hv1, hv2⟩
    simp only [hcap] at hlen0 hstart
    obtain ⟨c1, c2, c3, c4, c5, c6, c7⟩ := hcapr
    rw [← hstart] at c1 c2 c5 c6
    refine ⟨c5, by omega, by omega, hcontent, hzero, (fun h => nomatch h), ?_⟩
    intro hlt
    refine ⟨by rw [hlim]; rfl, by simp only [LIMIT_BASE_THREAD_COUNT]; omega, hcr, ?_⟩
    simp only [LIMIT_MAX_EXTRA_THREAD_STACK_LEN]
    by_cases hlc : l ≤ c
    · have := c4 hlc
      rw [this] at hlen0 hstart
      simp only at hlen0 hstart
      omega
    · have := c7 (by omega); omega

/-- **End to end (skipping).** With skipping enabled, whether the stack is recorded is decided by the inclusion rule on
    the copy that was taken (the shortened one, for a late thread under a limit). -/
theorem E2E_skip_iff (env : GEnv) (cfg : GCfg) (idx n currPos : Nat) (isCrash : Bool) (sp ip v l : Nat) (bs : Bytes)
    (hgs : getStackInfo env.ms env.page sp = .ok (v, l)) (hns : cfg.sanitize = false)
    (hrd : env.read (capRegion v l sp (maxStackLen cfg.limit (extraLimit cfg.limit n currPos) idx isCrash)).1
      (capRegion v l sp (maxStackLen cfg.limit (extraLimit cfg.limit n currPos) idx isCrash)).2 = some bs) :
    let r := capRegion v l sp (maxStackLen cfg.limit (extraLimit cfg.limit n currPos) idx isCrash)
    (gatherStack env cfg idx n currPos isCrash sp ip = .ok none ↔ includeStack cfg.skip cfg.principal ip bs (sp - r.1) = false) ∧
    (gatherStack env cfg idx n currPos isCrash sp ip = .ok (some (r.1, bs)) ↔ includeStack cfg.skip cfg.principal ip bs (sp - r.1) = true) := by
  intro r
  unfold gatherStack
  rw [hgs]
  simp only
  rw [hrd]
  simp only [hns, Bool.false_eq_true, if_false]
  cases hinc : includeStack cfg.skip cfg.principal ip bs (sp - r.1) <;> simp [r, hinc]

/-- **End to end (into the image).** A dump whose `k`-th thread carries the gathered region stores exactly that region:
    the record's stack range is its start and length, the image holds its bytes at the stored location, and the
    memory list has a block for it at the same location. -/
theorem E2E_stack_in_image (d : DumpIn) (k : Nat) (t : DThread) (start : Nat) (bytes : Bytes)
    (hk : d.threads[k]? = some t) (hst : t.stack = some (start, bytes))
    (hsz : (dumpBytes d).length < 2 ^ 32) (htid : t.tid < 2 ^ 32) (hstart : start < 2 ^ 64) :
    let i := Img.ofBytes (dumpBytes d)
    let o := 32 + 12 * d.numWriters + 4 + 48 * k
    i.u64 (o + 24) = some start ∧ i.u32 (o + 32) = some bytes.length ∧ i.u32 (o + 36) = some (threadPos d k) ∧
    i.bytes (threadPos d k) bytes.length = some bytes ∧
    (⟨start, bytes.length, threadPos d k⟩ : Desc) ∈ (acc3 d).blocks := by
  intro i o
  have hr := Image_thread_read d k t hk hsz htid (by simp [hst]; exact hstart)
  have hb := (Image_thread_block d k t hk).1 start bytes hst
  have hsl : t.stackLen = bytes.length := by simp [DThread.stackLen, hst]
  have hsb : t.stackBytes = bytes := by simp [DThread.stackBytes, hst]
  obtain ⟨_, h2, h3, h4, _, _, h7, _⟩ := hr
  simp only [hst] at h2
  rw [hsl] at h3 h7
  rw [hsb] at h7
  exact ⟨h2, h3, h4, h7, hb.1⟩

/-- the reader answers with exactly the requested bytes -/
theorem gatherWindow_spec (env : GEnv) (mem : Nat → UInt8) (ip lo : Nat) (b : Bytes) (hr : ReadsExactly env mem)
    (h : gatherWindow env ip = .ok (some (lo, b))) :
    ipWindow env.ms ip = some (lo, b.length) ∧ b = (List.range b.length).map (fun k => mem (lo + k)) := by
  unfold gatherWindow at h
  split at h
  · cases h
  · rename_i lo' len hw
    split at h
    · cases h
    · rename_i b' hrd
      injection h with h; injection h with h; injection h with h1 h2
      subst h1; subst h2
      have := hr _ _ _ hrd
      have hl : b'.length = len := by rw [this]; simp
      rw [hl]
      exact ⟨hw, this⟩

/-- … the same for a reader that is exact inside `[lo, hi)` when the window lies there -/
theorem gatherWindow_spec_in (env : GEnv) (mem : Nat → UInt8) (ip wlo lo hi : Nat) (b : Bytes)
    (hr : ReadsExactlyIn env mem lo hi)
    (hin : ∀ a n, ipWindow env.ms ip = some (a, n) → lo ≤ a ∧ a + n ≤ hi)
    (h : gatherWindow env ip = .ok (some (wlo, b))) :
    ipWindow env.ms ip = some (wlo, b.length) ∧ b = (List.range b.length).map (fun k => mem (wlo + k)) := by
  unfold gatherWindow at h
  split at h
  · cases h
  · rename_i lo' len hw
    split at h
    · cases h
    · rename_i b' hrd
      injection h with h; injection h with h; injection h with h1 h2
      subst h1; subst h2
      obtain ⟨hb1, hb2⟩ := hin _ _ hw
      have := hr _ _ _ hb1 hb2 hrd
      have hl : b'.length = len := by rw [this]; simp
      rw [hl]
      exact ⟨hw, this⟩

/-- **End to end (the thread of the crash context).** Whatever its position in the list and whatever the size limit,
    the thread the crash context blames is gathered from the crash context: its stack pointer, instruction pointer and
    registers are the supplied ones, its stack is gathered as the crash-context thread (never shortened), and the
    window around the supplied instruction pointer is what the window rule prescribes, read from the target. -/
theorem E2E_crash_thread (env : GEnv) (cfg : GCfg) (c : CrashIn) (blamed idx n currPos : Nat) (t : TInfo) (d : DThread)
    (hb : t.tid = blamed) (h : gatherThread env cfg (some c) blamed idx n currPos t = .ok d) :
    d.tid = t.tid ∧ d.sp = c.sp ∧ d.ip = c.ip ∧ d.ctx = c.ctx ∧
    gatherStack env cfg idx n currPos true c.sp c.ip = .ok d.stack ∧
    gatherWindow env c.ip = .ok d.window := by
  unfold gatherThread at h
  simp only [hb, if_true] at h
  split at h
  · rename_i stack hs
    split at h
    · rename_i window hw
      injection h with h
      subst h
      exact ⟨hb.symm, rfl, rfl, rfl, hs, hw⟩
    all_goals cases h
  all_goals cases h

/-- **End to end (the crash-context thread is never shortened).** Under any size limit and at any list position, the
    recorded stack of the thread the crash context blames reaches the end of the mapping that holds the supplied
    stack pointer and starts on the stack pointer's page (or at the mapping's start). -/
theorem E2E_crash_thread_full (env : GEnv) (cfg : GCfg) (mem : Nat → UInt8) (c : CrashIn) (blamed idx n currPos : Nat)
    (t : TInfo) (d : DThread) (m : Mapping) (start : Nat) (bytes : Bytes)
    (hp : 0 < env.page) (hw : HullOk env.ms) (hr : ReadsExactlyIn env mem m.start (m.start + m.size))
    (hf : findMapping env.ms (c.sp - c.sp % env.page) = some m) (hs : mayBeStack (some m) = true) (hsp : c.sp < m.start + m.size)
    (hsan : cfg.sanitize = true → WfMaps env.ms ∧ c.sp + 7 < 2 ^ 64)
    (hb : t.tid = blamed) (h : gatherThread env cfg (some c) blamed idx n currPos t = .ok d)
    (hst : d.stack = some (start, bytes)) :
    start ≤ c.sp ∧ c.sp < start + bytes.length ∧ start + bytes.length = m.start + m.size ∧
    (start = c.sp - c.sp % env.page ∨ start = m.start) := by
  obtain ⟨_, _, _, _, hg, _⟩ := E2E_crash_thread env cfg c blamed idx n currPos t d hb h
  rw [hst] at hg
  obtain ⟨h1, h2, _, _, _, h6, _⟩ := E2E_stack_contains_sp env cfg mem idx n currPos true c.sp c.ip m start bytes hp hw hr hf hs hsp hsan hg
  have := h6 (C06_not_shortened _ _ _ _ (Or.inr (Or.inl rfl)))
  exact ⟨h1, h2, this.1, this.2⟩

/-- … and every other thread from what ptrace reported, shortened by its position only -/
theorem E2E_other_thread (env : GEnv) (cfg : GCfg) (crash : Option CrashIn) (blamed idx n currPos : Nat) (t : TInfo) (d : DThread)
    (hb : crash = none ∨ t.tid ≠ blamed) (h : gatherThread env cfg crash blamed idx n currPos t = .ok d) :
    d.tid = t.tid ∧ d.sp = t.sp ∧ d.ip = t.ip ∧ d.ctx = t.ctx ∧ d.window = none ∧
    gatherStack env cfg idx n currPos false t.sp t.ip = .ok d.stack := by
  unfold gatherThread at h
  cases crash with
  | none =>
    simp only at h
    split at h
    · rename_i stack hs
      injection h with h; subst h
      exact ⟨rfl, rfl, rfl, rfl, rfl, hs⟩
    all_goals cases h
  | some c =>
    have hne : t.tid ≠ blamed := by
      rcases hb with hb | hb
      · cases hb
      · exact hb
    simp only [hne, if_false] at h
    split at h
    · rename_i stack hs
      injection h with h; subst h
      exact ⟨rfl, rfl, rfl, rfl, rfl, hs⟩
    all_goals cases h

/-- the loop gathers the `k`-th listed thread with list position `k` -/
theorem gatherThreadsFrom_get (env : GEnv) (cfg : GCfg) (crash : Option CrashIn) (blamed n currPos : Nat)
    (ts : List TInfo) (i0 : Nat) (ds : List DThread)
    (h : gatherThreadsFrom env cfg crash blamed n currPos i0 ts = .ok ds) :
    ds.length = ts.length ∧
    ∀ k t, ts[k]? = some t → ∃ d, ds[k]? = some d ∧ gatherThread env cfg crash blamed (i0 + k) n currPos t = .ok d := by
  induction ts generalizing i0 ds with
  | nil =>
    simp only [gatherThreadsFrom] at h
    injection h with h; subst h
    exact ⟨rfl, fun k t hk => by simp at hk⟩
  | cons t ts ih =>
    simp only [gatherThreadsFrom] at h
    split at h
    · rename_i d hd
      split at h
      · rename_i ds' hds
        injection h with h; subst h
        obtain ⟨hl, hget⟩ := ih (i0 + 1) ds' hds
        refine ⟨by simp [hl], ?_⟩
        intro k t' hk
        cases k with
        | zero =>
          simp only [List.getElem?_cons_zero, Option.some.injEq] at hk
          subst hk
          exact ⟨d, by simp, by simpa using hd⟩
        | succ k =>
          simp only [List.getElem?_cons_succ] at hk
          obtain ⟨d', h1, h2⟩ := hget k t' hk
          refine ⟨d', by simpa using h1, ?_⟩
          have : i0 + 1 + k = i0 + (k + 1) := by omega
          rw [← this]; exact h2
      all_goals cases h
    all_goals cases h

/-- **End to end (every listed thread).** A successful gathering lists the threads one to one in order; the `k`-th is
    gathered at list position `k` of `n` with the limit decision taken at header + directory + count + records. -/
theorem E2E_threads (env : GEnv) (cfg : GCfg) (crash : Option CrashIn) (blamed numWriters : Nat) (ts : List TInfo)
    (ds : List DThread) (h : gatherThreads env cfg crash blamed numWriters ts = .ok ds) :
    ds.length = ts.length ∧ ds.map (·.tid) = ts.map (·.tid) ∧
    ∀ k t, ts[k]? = some t → ∃ d, ds[k]? = some d ∧
      gatherThread env cfg crash blamed k ts.length (32 + 12 * numWriters + 4 + 48 * ts.length) t = .ok d := by
  unfold gatherThreads at h
  obtain ⟨hl, hget⟩ := gatherThreadsFrom_get env cfg crash blamed _ _ ts 0 ds h
  refine ⟨hl, ?_, fun k t hk => by simpa using hget k t hk⟩
  apply List.ext_getElem?
  intro k
  simp only [List.getElem?_map]
  cases hk : ts[k]? with
  | none =>
    have : ds[k]? = none := by
      rw [List.getElem?_eq_none_iff] at hk ⊢; omega
    rw [this]; rfl
  | some t =>
    obtain ⟨d, h1, h2⟩ := hget k t hk
    rw [h1]
    simp only [Option.map_some, Option.some.injEq]
    by_cases hc : ∃ c, crash = some c ∧ t.tid = blamed
    · obtain ⟨c, hc1, hc2⟩ := hc
      subst hc1
      exact (E2E_crash_thread env cfg c blamed _ _ _ t d hc2 h2).1
    · have : crash = none ∨ t.tid ≠ blamed := by
        cases crash with
        | none => exact Or.inl rfl
        | some c => exact Or.inr (fun he => hc ⟨c, rfl, he⟩)
      exact (E2E_other_thread env cfg crash blamed _ _ _ t d this h2).1

/-- **End to end (the window around the crash instruction pointer, into the image).** A dump whose thread list is the
    gathered one, with a crash context whose instruction pointer lies in a mapping: the blamed thread's record is
    followed in the memory list's blocks by a region that covers up to 128 bytes on either side of the instruction
    pointer, clipped to that mapping, located right after the thread's stack in the image, holding the target's
    bytes. -/
theorem E2E_window_in_image (env : GEnv) (cfg : GCfg) (mem : Nat → UInt8) (c : CrashIn) (blamed : Nat) (ts : List TInfo)
    (d : DumpIn) (k : Nat) (t : TInfo) (hr : ReadsExactly env mem)
    (hg : gatherThreads env cfg (some c) blamed d.numWriters ts = .ok d.threads)
    (hk : ts[k]? = some t) (hb : t.tid = blamed)
    (m : Mapping) (hm : env.ms.find? (fun m => !(decide (c.ip < m.start) || decide (c.ip ≥ m.start + m.size))) = some m) :
    ∃ dt lo b, d.threads[k]? = some dt ∧ dt.window = some (lo, b) ∧
      lo = max m.start (c.ip - 128) ∧ lo + b.length = min (m.start + m.size) (c.ip + 128) ∧
      b = (List.range b.length).map (fun j => mem (lo + j)) ∧
      (⟨lo, b.length, threadPos d k + dt.stackLen⟩ : Desc) ∈ (acc3 d).blocks ∧
      At (dumpBytes d) (threadPos d k + dt.stackLen) b := by
  obtain ⟨_, _, hget⟩ := E2E_threads env cfg (some c) blamed d.numWriters ts d.threads hg
  obtain ⟨dt, hdk, hgt⟩ := hget k t hk
  obtain ⟨_, _, _, _, _, hw⟩ := E2E_crash_thread env cfg c blamed _ _ _ t dt hb hgt
  -- the window rule finds the mapping, so a window is gathered (the read succeeded: the gathering did)
  have hwin : ipWindow env.ms c.ip = some (max m.start (c.ip - 128), min (m.start + m.size) (c.ip + 128) - max m.start (c.ip - 128)) := by
    unfold ipWindow
    rw [hm]
    simp [ipWindow.Src_ipHalf]
  have hp := List.find?_some hm
  simp only [Bool.not_eq_true', Bool.or_eq_false_iff, decide_eq_false_iff_not, Nat.not_lt, ge_iff_le, Nat.not_le] at hp
  cases hdw : dt.window with
  | none =>
    rw [hdw] at hw
    unfold gatherWindow at hw
    rw [hwin] at hw
    simp only at hw
    split at hw <;> cases hw
  | some w =>
    obtain ⟨lo, b⟩ := w
    rw [hdw] at hw
    obtain ⟨h1, h2⟩ := gatherWindow_spec env mem c.ip lo b hr hw
    rw [hwin] at h1
    injection h1 with h1; injection h1 with h1 h1'
    have hblk := (Image_thread_block d k dt hdk).2 lo b hdw
    refine ⟨dt, lo, b, hdk, hdw, h1.symm, by omega, h2, hblk.1, hblk.2⟩

/-! ### From the mappings to the module list in the image -/

/-- a module of the module-list model (Model/Modules.lean) as content of the image model: the name converted to
    UTF-16 units by the (trusted, C16) encoder `utf16` -/
def toDModule (utf16 : Bytes → List Nat) (m : Mod.Module) : DModule :=
  ⟨m.base, m.size, m.ident, utf16 m.name, m.version.map (fun v => (v.major, v.minor, v.patch, v.prerelease))⟩

/-- **End to end (modules).** A dump whose module content is the module list the mappings writer gathers (the model of
    `sections::mappings::write`: C08, over the aggregated mappings: C13): every target mapping that is interesting,
    not covered by a caller mapping and has a usable identifier has a record in the image's module list — base
    address, size, CodeView record = ELF signature ‖ identifier at the location the record names, name string right
    behind it; the stream sits in directory slot 1 and counts exactly the gathered modules. -/
theorem E2E_module_in_image (decode : Bytes → List Char) (utf16 : Bytes → List Nat) (d : DumpIn)
    (ms : List Mapping) (facts : Mapping → Mod.Facts) (us : Mod.UserMap → Option Bytes) (users : List Mod.UserMap)
    (hd : d.modules = (Mod.moduleList decode ms facts us users).map (toDModule utf16))
    (m : Mapping) (hm : m ∈ ms) (hi : Mod.isInteresting m = true) (hc : Mod.isContainedIn m users = false)
    (hid : Mod.idUsable (Mod.identifierOf (facts m)) = true) :
    ∃ k dm, d.modules[k]? = some dm ∧
      dm.base = m.start ∧ dm.size = m.size % 2 ^ 32 ∧ dm.ident = Mod.identifierOf (facts m) ∧
      dm.name = utf16 (Mod.effectivePath m (Mod.sonameOf (facts m))) ∧
      (dumpAcc d).dir[1]? = some ⟨ST_MODULE_LIST, 4 + 108 * d.modules.length, (acc1 d).pos + (moduleBlobs d.modules).length⟩ ∧
      d.modules.length = (Mod.moduleList decode ms facts us users).length ∧
      At (dumpBytes d) ((acc1 d).pos + (moduleBlobs d.modules).length + 4 + 108 * k) (moduleRec (modulePos d k) dm) ∧
      At (dumpBytes d) (modulePos d k) (le 4 0x4270454c ++ dm.ident) ∧
      At (dumpBytes d) (modulePos d k + (4 + dm.ident.length)) (mdStr dm.name) := by
  -- the mapping's module
  have htm : Mod.targetModule decode users m (facts m) =
      some (Mod.rawModule decode m (Mod.identifierOf (facts m)) (Mod.sonameOf (facts m))) := by
    simp [Mod.targetModule, hi, hc, hid]
  have hmem : Mod.rawModule decode m (Mod.identifierOf (facts m)) (Mod.sonameOf (facts m)) ∈
      Mod.moduleList decode ms facts us users := by
    unfold Mod.moduleList
    exact List.mem_append_left _ (List.mem_filterMap.mpr ⟨m, hm, htm⟩)
  obtain ⟨k, hk⟩ := List.getElem?_of_mem hmem
  have hdk : d.modules[k]? = some (toDModule utf16 (Mod.rawModule decode m (Mod.identifierOf (facts m)) (Mod.sonameOf (facts m)))) := by
    rw [hd, List.getElem?_map, hk]; rfl
  obtain ⟨h1, _, h3, h4, h5⟩ := Image_module d k _ hdk
  have hne : (Mod.identifierOf (facts m)).isEmpty = false := by
    unfold Mod.idUsable at hid
    simp only [Bool.and_eq_true, Bool.not_eq_true'] at hid
    exact hid.1
  have hcv : (toDModule utf16 (Mod.rawModule decode m (Mod.identifierOf (facts m)) (Mod.sonameOf (facts m)))).cv =
      le 4 0x4270454c ++ Mod.identifierOf (facts m) := by
    simp [DModule.cv, toDModule, Mod.rawModule, hne]
  refine ⟨k, _, hdk, rfl, rfl, rfl, rfl, h1, by rw [hd]; simp, h3, ?_, ?_⟩
  · rw [hcv] at h4; exact h4
  · have hl : (toDModule utf16 (Mod.rawModule decode m (Mod.identifierOf (facts m)) (Mod.sonameOf (facts m)))).cv.length =
        4 + (Mod.identifierOf (facts m)).length := by
      rw [hcv]; simp [le_length]
    rw [hl] at h5
    exact h5

/-- Non-vacuity: a guard page below a stack mapping, the stack pointer inside the stack mapping, a reader that
    answers every request; thread 25 of 30 under a size limit that is already exhausted: the gathering records a
    (shortened) region, so the hypotheses of `E2E_stack_contains_sp` are met by an evaluated instance. -/
example :
    let guard : Mapping := ⟨0x10000, 0x1000, 0x10000, 0x11000, 0, 16, none⟩
    let stk : Mapping := ⟨0x11000, 0x8000, 0x11000, 0x19000, 0, 3 + 16, none⟩
    let env : GEnv := ⟨[guard, stk], 4096, fun _ n => some (List.replicate n 0)⟩
    let cfg : GCfg := ⟨some 0, false, false, none⟩
    findMapping env.ms (0x12345 - 0x12345 % env.page) = some stk ∧ mayBeStack (some stk) = true ∧
    (match gatherStack env cfg 25 30 100000 false 0x12345 0x400000 with
     | .ok (some (s, _)) => s == 0x12000 | _ => false) = true := by decide

end Mdw
