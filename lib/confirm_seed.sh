#!/bin/bash
# confirm_seed.sh <Cxx>: in the scratch worktree /tmp/mut2/<Cxx> (patch applied, demo in tests/), confirm:
#  (1) the existing suite passes with the change, (2) the demo fails with the change, (3) the demo passes without it.
P=$1; W=/tmp/mut2/$P; O=/tmp/mut2/$P-out
cd $W || exit 2
export CARGO_NET_OFFLINE=true
demo=$(git status --porcelain | grep '^??' | awk '{print $2}' | grep -E '^(tests|examples)/.*\.rs$' | head -1)
[ -z "$demo" ] && { echo "$P: no demo file"; exit 2; }
name=$(basename $demo .rs)
feat=""; grep -q "verif-hooks\|verif_hooks\|verif_synthetic" $demo && feat="--features verif-hooks"
mkdir -p /tmp/mut2/hold
# (2) demo with change
cargo test --offline $feat --test $name > $O/confirm_demo_with.log 2>&1; rc_with=$?
# (3) demo without change
git diff > /tmp/mut2/hold/$P.cur.diff; git apply -R /tmp/mut2/hold/$P.cur.diff; cargo test --offline $feat --test $name > $O/confirm_demo_without.log 2>&1; rc_without=$?; git apply /tmp/mut2/hold/$P.cur.diff
# (1) suite with change (demo moved away)
mv $demo /tmp/mut2/hold/$P-$name.rs
cargo test --workspace --no-fail-fast --offline > $O/confirm_suite.log 2>&1; rc_suite=$?
passed=$(grep -E "^test result" $O/confirm_suite.log | awk '{s+=$4} END {print s}')
failed=$(grep -E "^test result" $O/confirm_suite.log | awk '{s+=$6} END {print s}')
mv /tmp/mut2/hold/$P-$name.rs $demo
echo "$P: demo_with_change_rc=$rc_with demo_without_change_rc=$rc_without suite_rc=$rc_suite passed=$passed failed=$failed demo=$demo feat='$feat'"
