/-
  C10 — Every prefix of the output is a consistent truncated minidump
        (src/dir_section.rs, order of publication in `write_to_file`)

  Granularity: the destination's trait-level calls, each atomic (scripts without short writes:
  a `write` either stores all its bytes or fails without effect — the behaviour of `File` and
  `Cursor`; torn writes are the subject of C09's failure post-condition).

  Ghost: `pub` = for every directory entry published so far, the length the image had when the
  entry was published.  The stream writers guarantee (C01) that an entry and everything it
  references lie inside the image as built at that moment, i.e. below that length.

    C10_flush      every destination state after a completed call of `write_to_file` mirrors,
                   on a prefix [0, L), either the image before the operation or the image with
                   the new entry; L covers the header, the whole directory and the publication
                   bound of every entry visible in that image version.
    C10_unfixed_counterexample   the pre-repair order (entry first) violates it.
-/
import MdwModel.Theorems.C09
namespace Mdw

def NoShort (sc : Script) : Prop := ∀ k m, sc k ≠ .short m

/-- `d` holds image version `v` on `[0, L)` from `start`. -/
def Mirrors (content : Bytes) (start : Nat) (v : Bytes) (L : Nat) : Prop :=
  ∀ i, i < L → content[start + i]? = v[i]?

/-- A destination snapshot is a consistent truncated dump of image version `v` whose published
    entries have closure bounds `pub`: some prefix `[0, L)` of `v` is present that contains the
    header + directory (`dirEnd`) and everything any published entry refers to. -/
def SnapshotOK (content : Bytes) (start : Nat) (v : Bytes) (dirEnd : Nat) (pub : List Nat) : Prop :=
  ∃ L, Mirrors content start v L ∧ dirEnd ≤ L ∧ ∀ b ∈ pub, b ≤ L

theorem writeAll_noshort (sc : Script) (hns : NoShort sc) (d : Dest) (bs : Bytes) :
    (d.writeAll sc bs).2 = false → (d.writeAll sc bs).1.content = d.content := by
  unfold Dest.writeAll Dest.writeAllFuel
  by_cases hb : bs.isEmpty
  · simp [hb]
  · simp only [hb]
    cases hsc : sc d.calls with
    | ok => simp
    | fail => simp
    | short m => exact absurd hsc (hns _ _)

/-- **C10.** From a state satisfying the mirror invariant in which the header and directory are
    already flushed and all published entries' bounds are below the flushed length, every
    destination state after each completed call of `write_to_file(Some(e))` is a consistent
    snapshot: of the old image with the old entries, or of the new image with the new entry
    whose bound is the image length at this flush. -/
theorem C10_flush (sc : Script) (hns : NoShort sc) (c0 : Bytes) (s : DS) (e : Bytes)
    (pub : List Nat)
    (hinv : C09Inv c0 s) (he : e.length = 12) (hidx : s.dir.currIdx < s.dir.sec.arraySize)
    (hdir : s.dir.sec.position + 12 * s.dir.sec.arraySize ≤ s.dir.lastWritten)
    (hpub : ∀ b ∈ pub, b ≤ s.dir.lastWritten) :
    ∃ b1, s.dir.sec.setValueAt s.buf e s.dir.currIdx = some b1 ∧
    ∀ d ∈ flushStates sc s (some e),
      SnapshotOK d.content s.dir.startOff s.buf.inner (s.dir.sec.position + 12 * s.dir.sec.arraySize) pub ∨
      SnapshotOK d.content s.dir.startOff b1.inner (s.dir.sec.position + 12 * s.dir.sec.arraySize)
        (pub ++ [s.buf.len]) := by
  have hinv0 := hinv
  obtain ⟨hpos, hposle, hbefore, hmirror, hbeyond, hlw, hsec, hsz, hsmall⟩ := hinv
  have hle : (s.dir.currIdx + 1) * 12 ≤ s.dir.sec.arraySize * 12 := Nat.mul_le_mul_right _ hidx
  obtain ⟨b1, hset, hb1len, hb1, hout, hin⟩ :=
    C16_setValueAt_frame s.buf s.dir.sec e s.dir.currIdx (by rw [hsz, he]) hidx (by rw [hsz]; omega)
  rw [hsz] at hb1 hout hin
  refine ⟨b1, hset, ?_⟩
  have hloc : s.dir.sec.locationOfIndex s.dir.currIdx =
      some ⟨12, s.dir.sec.position + s.dir.currIdx * 12⟩ := by
    have := C16_locationOfIndex s.dir.sec s.dir.currIdx (by rw [hsz]; omega)
    rw [hsz] at this; exact this
  have hslice : (b1.inner.drop (s.dir.sec.position + s.dir.currIdx * 12)).take 12 = e := by
    rw [hb1, List.append_assoc, List.drop_left' (by simp [Buf.len] at *; omega), List.take_left' he]
  generalize hP : s.dir.sec.position + s.dir.currIdx * 12 = P at *
  generalize hS : s.dir.startOff = S at *
  generalize hL : s.dir.lastWritten = L at *
  generalize hD : s.dir.sec.position + 12 * s.dir.sec.arraySize = D at *
  have hPD : P + 12 ≤ D := by omega
  -- old snapshot: anything that mirrors s.buf on [0, L)
  have oldOK : ∀ c : Bytes, Mirrors c S s.buf.inner L → SnapshotOK c S s.buf.inner D pub :=
    fun c hc => ⟨L, hc, hdir, hpub⟩
  have oldOK' : ∀ c : Bytes, Mirrors c S s.buf.inner s.buf.len → SnapshotOK c S s.buf.inner D pub :=
    fun c hc => ⟨s.buf.len, hc, by omega, fun b hb => by have := hpub b hb; omega⟩
  have newOK : ∀ c : Bytes, Mirrors c S b1.inner s.buf.len →
      SnapshotOK c S b1.inner D (pub ++ [s.buf.len]) := by
    intro c hc
    refine ⟨s.buf.len, hc, by omega, ?_⟩
    intro b hb
    simp only [List.mem_append, List.mem_singleton] at hb
    rcases hb with hb | hb
    · have := hpub b hb; omega
    · omega
  have hnp : ¬ L > s.buf.len := by omega
  have hw := Dest.writeAll_spec sc s.dest (s.buf.inner.drop L) hposle
  have hdl : (s.buf.inner.drop L).length = s.buf.len - L := by simp [Buf.len]
  have hwf := writeAll_noshort sc hns s.dest (s.buf.inner.drop L)
  intro d hd
  unfold flushStates at hd
  simp only [hL, hnp, if_false] at hd
  cases hwa : s.dest.writeAll sc (s.buf.inner.drop L) with
  | mk d1 ok1 =>
  rw [hwa] at hw hd hwf
  simp only [hdl, hpos] at hw
  simp only at hd hwf
  obtain ⟨w1, w2, w3, w4, w5, w6, w7, w8⟩ := hw
  cases ok1 with
  | false =>
    simp only [Bool.not_false, if_true, List.append_nil] at hd
    have hd' : d = d1 := by
      split at hd
      · simp at hd
      · simpa using hd
    subst hd'
    refine Or.inl (oldOK _ ?_)
    intro i hi; rw [hwf rfl]; exact hmirror i hi
  | true =>
    have hd1pos : d1.pos = S + L + (s.buf.len - L) := w8 rfl
    -- d1 mirrors the whole old image
    have hm1 : Mirrors d1.content S s.buf.inner s.buf.len := by
      intro i hi
      by_cases hil : i < L
      · rw [w6 (S + i) (by omega)]; exact hmirror i hil
      · have := w7 (i - L) (by omega)
        have e1 : S + L + (i - L) = S + i := by omega
        rw [e1, List.getElem?_drop] at this
        rw [this]; congr 1; omega
    simp only [Bool.not_true, Bool.false_eq_true, if_false, List.mem_append] at hd
    rcases hd with hd | hd
    · have hd' : d = d1 := by
        split at hd
        · simp at hd
        · simpa using hd
      subst hd'; exact Or.inl (oldOK' _ hm1)
    · unfold dirEntryStates at hd
      simp only [hset] at hd
      obtain ⟨hspc, hspp, hspv⟩ := Dest.streamPosition_spec sc d1
      cases hsp : (d1.streamPosition sc) with
      | mk d1' cur =>
      rw [hsp] at hspc hspp hspv hd
      simp only at hspc hspp hspv hd
      simp only [List.mem_cons] at hd
      rcases hd with hd | hd
      · subst hd; rw [hspc]; exact Or.inl (oldOK' _ hm1)
      · cases cur with
        | none => simp at hd
        | some cur =>
          simp only [hloc, hS] at hd
          cases hsk : d1'.seek sc (S + P) with
          | mk d2 ok2 =>
          have hd2c : d2.content = d1.content := by
            have := Dest.seek_content sc d1' (S + P)
            rw [hsk] at this; simp only at this; rw [this, hspc]
          have hd2p := Dest.seek_pos sc d1' (S + P)
          rw [hsk] at hd2p hd; simp only at hd2p hd
          simp only [List.mem_cons] at hd
          rcases hd with hd | hd
          · subst hd; rw [hd2c]; exact Or.inl (oldOK' _ hm1)
          · cases ok2 with
            | false => simp at hd
            | true =>
              have hd2pos : d2.pos = S + P := hd2p.1 rfl
              have hnp2 : ¬ (P + 12 > b1.len) := by rw [hb1len]; omega
              simp only [Bool.not_true, Bool.false_eq_true, if_false, hnp2, hslice] at hd
              have hd2le : d2.pos ≤ d2.content.length := by rw [hd2pos, hd2c]; omega
              have hw2 := Dest.writeAll_spec sc d2 e hd2le
              have hwf2 := writeAll_noshort sc hns d2 e
              cases hwa2 : d2.writeAll sc e with
              | mk d3 ok3 =>
              rw [hwa2] at hw2 hwf2 hd
              simp only [he, hd2pos, hd2c] at hw2
              simp only at hwf2 hd
              obtain ⟨v1, v2, v3, v4, v5, v6, v7, v8⟩ := hw2
              cases ok3 with
              | false =>
                simp only [Bool.not_false, if_true, List.mem_cons, List.not_mem_nil, or_false] at hd
                subst hd
                rw [hwf2 rfl, hd2c]; exact Or.inl (oldOK' _ hm1)
              | true =>
                have hd3pos : d3.pos = S + P + 12 := v8 rfl
                -- d3 mirrors the new image (entry patched in) on the whole flushed length
                have hm3 : Mirrors d3.content S b1.inner s.buf.len := by
                  intro i hi
                  by_cases hslot : i < P ∨ P + 12 ≤ i
                  · rw [v6 (S + i) (by omega), hm1 i hi, hout i (by omega)]
                  · have hk : i - P < 12 := by omega
                    have h7 := v7 (i - P) (by rw [hd3pos]; omega)
                    have e1 : S + P + (i - P) = S + i := by omega
                    rw [e1] at h7
                    have h8 := hin (i - P) hk
                    have e2 : P + (i - P) = i := by omega
                    rw [e2] at h8
                    rw [h7, h8]
                simp only [Bool.not_true, Bool.false_eq_true, if_false, List.mem_cons,
                  List.not_mem_nil, or_false] at hd
                rcases hd with hd | hd
                · subst hd; exact Or.inr (newOK _ hm3)
                · subst hd
                  rw [Dest.seek_content]; exact Or.inr (newOK _ hm3)

/-- The order before the repair (directory entry first, stream bytes afterwards), as a model. -/
def writeToFileUnfixedStates (sc : Script) (s : DS) (e : Bytes) : List Dest :=
  dirEntryStates sc s e

/-- **C10 counterexample for the pre-repair order.** Header + 1-slot directory flushed, a 4-byte
    stream appended, entry (type 3, size 4, rva 44) published first: after the entry write the
    destination holds an entry that refers to bytes [44, 48) while only 44 bytes are present. -/
theorem C10_unfixed_counterexample :
    let sc : Script := fun _ => .ok
    let img : Bytes := zeros 44
    let s : DS := ⟨⟨img ++ [1,2,3,4]⟩, ⟨img, 44, 0⟩, ⟨0, ⟨32, 1, 12⟩, 0, 44⟩⟩
    let e : Bytes := le 4 3 ++ le 4 4 ++ le 4 44
    ∃ d ∈ writeToFileUnfixedStates sc s e,
      d.content.length = 44 ∧ (d.content.drop 32).take 12 = e := by
  decide

end Mdw
