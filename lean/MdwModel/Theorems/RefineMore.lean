/-
  Refinement of the handle-data and linker-debug writers (builder operations) to their stages of the image model.
-/
import MdwModel.Theorems.RefineLoop
namespace Mdw

-- handle data ------------------------------------------------------------------------------------------------------

def handleRec (p : Nat) (h : DHandle) : Bytes := le 8 h.fd ++ le 4 0 ++ le 4 p ++ le 4 h.attrs ++ le 4 0 ++ le 4 0 ++ le 4 0

/-- per open file: `write_string_to_location(link target)`, the descriptor keeps the string's offset -/
def opHandleStrings : Buf → List DHandle → Option (Buf × List Bytes)
  | b, [] => some (b, [])
  | b, h :: r =>
    match writeString b h.name with
    | .ok (b1, loc) =>
      match opHandleStrings b1 r with
      | some (b2, recs) => some (b2, handleRec loc.rva h :: recs)
      | none => none
    | _ => none

/-- `handle_data_stream::write`: the strings, then the header, then `alloc_from_iter(descriptors)` -/
def opHandles (b : Buf) (hs : List DHandle) : Option (Buf × DirEnt) :=
  match opHandleStrings b hs with
  | none => none
  | some (b1, recs) =>
    match Slot.allocWithVal b1 (le 4 16 ++ le 4 32 ++ le 4 hs.length ++ le 4 0) with
    | none => none
    | some (b2, hdr) =>
      match Arr.allocFromArray b2 recs 32 with
      | none => none
      | some (b3, arr) => some (b3, ⟨ST_HANDLE_DATA, hdr.location.size + arr.location.size, hdr.location.rva⟩)

theorem mdStr_length (us : List Nat) : (mdStr us).length = 4 + 2 * us.length := by
  simp [mdStr, units16LE_length]; omega

theorem opHandleStrings_spec (b : Buf) (hs : List DHandle) (hb : b.len + (handleNames hs).length < 2 ^ 32) :
    ∃ recs, opHandleStrings b hs = some (⟨b.inner ++ handleNames hs⟩, recs) ∧
      recs.flatten = handleRecs b.len hs ∧ recs.length = hs.length ∧ ∀ v ∈ recs, v.length = 32 := by
  induction hs generalizing b with
  | nil => exact ⟨[], by simp [opHandleStrings, handleNames], by simp [handleRecs], rfl, by simp⟩
  | cons h r ih =>
    have hl : (handleNames (h :: r)).length = (mdStr h.name).length + (handleNames r).length := by simp [handleNames]
    rw [hl, mdStr_length] at hb
    have hws := C16_writeString b h.name (by omega)
    have hlen1 : (⟨b.inner ++ le 4 (2 * h.name.length) ++ units16LE h.name⟩ : Buf).len = b.len + (mdStr h.name).length := by
      simp [Buf.len, mdStr, Nat.add_assoc]
    obtain ⟨recs, h1, h2, h3, h4⟩ := ih ⟨b.inner ++ le 4 (2 * h.name.length) ++ units16LE h.name⟩
      (by rw [hlen1, mdStr_length]; omega)
    refine ⟨handleRec b.len h :: recs, ?_, ?_, by simp [h3], ?_⟩
    · simp only [opHandleStrings, hws, h1]
      simp [handleNames, mdStr, List.append_assoc]
    · simp only [List.flatten_cons, h2, hlen1, handleRecs, handleRec]
    · intro v hv
      rcases List.mem_cons.mp hv with rfl | hv
      · simp [handleRec]
      · exact h4 v hv

/-- **Refinement (handle data).** -/
theorem Refine_handles (b : Buf) (hs : List DHandle) (hb : b.len + (handleNames hs).length + 16 + 32 * hs.length < 2 ^ 32) :
    opHandles b hs = some (⟨b.inner ++ (handleNames hs ++ (le 4 16 ++ le 4 32 ++ le 4 hs.length ++ le 4 0 ++ handleRecs b.len hs))⟩,
      ⟨ST_HANDLE_DATA, 16 + 32 * hs.length, b.len + (handleNames hs).length⟩) := by
  obtain ⟨recs, h1, h2, h3, h4⟩ := opHandleStrings_spec b hs (by omega)
  have hlen1 : (⟨b.inner ++ handleNames hs⟩ : Buf).len = b.len + (handleNames hs).length := by simp [Buf.len]
  obtain ⟨b2, hdr, ha, hb2, hl2⟩ := C16_allocWithVal ⟨b.inner ++ handleNames hs⟩ (le 4 16 ++ le 4 32 ++ le 4 hs.length ++ le 4 0)
    (by rw [hlen1]; simp; omega)
  have hlen2 : b2.len = b.len + (handleNames hs).length + 16 := by simp [Buf.len, hb2]; omega
  obtain ⟨b3, arr, hb_, hb3, hl3⟩ := C16_allocFromArray b2 recs 32 h4 (by rw [hlen2, h3]; omega)
  simp only [opHandles, h1, ha, hb_, hl2, hl3, hlen1]
  congr 2
  · cases b3; simp only [Buf.mk.injEq]; simp only at hb3; rw [hb3, hb2, h2]; simp [List.append_assoc]
  · simp [h3]; omega

-- linker debug data --------------------------------------------------------------------------------------------------

def linkMapRec (p : Nat) (m : DLinkMap) : Bytes := le 8 m.addr ++ le 4 p ++ le 8 m.ld

/-- per loaded object: `write_string_to_location(name)`, then `set_value_at(entry, idx)` -/
def opLinkMapLoop (arr : Arr) : Buf → Nat → List DLinkMap → Option Buf
  | b, _, [] => some b
  | b, k, m :: r =>
    match writeString b m.name with
    | .ok (b1, loc) =>
      match arr.setValueAt b1 (linkMapRec loc.rva m) k with
      | some b2 => opLinkMapLoop arr b2 (k + 1) r
      | none => none
    | _ => none

theorem opLinkMapLoop_spec (arr : Arr) (pre D S : Bytes) (ms : List DLinkMap) (k : Nat)
    (hpos : arr.position = pre.length) (hsz : arr.sz = 20) (hD : D.length = 20 * k)
    (hsmall : pre.length + D.length + 20 * ms.length + S.length + (linkMapNames ms).length < 2 ^ 32) :
    opLinkMapLoop arr ⟨pre ++ D ++ zeros (20 * ms.length) ++ S⟩ k ms =
      some ⟨pre ++ D ++ recsGen linkMapRec (fun m => (mdStr m.name).length) (pre.length + D.length + 20 * ms.length + S.length) ms ++
        S ++ linkMapNames ms⟩ := by
  have hc : ∀ (p : Nat) (m : DLinkMap), (linkMapRec p m).length = 20 := by intro p m; simp [linkMapRec]
  induction ms generalizing D S k with
  | nil => simp [opLinkMapLoop, recsGen, zeros, linkMapNames]
  | cons m r ih =>
    have hl : (linkMapNames (m :: r)).length = (mdStr m.name).length + (linkMapNames r).length := by simp [linkMapNames]
    rw [hl, mdStr_length] at hsmall
    simp only [List.length_cons] at hsmall ⊢
    have hlenB : (⟨pre ++ D ++ zeros (20 * (r.length + 1)) ++ S⟩ : Buf).len =
        pre.length + D.length + 20 * (r.length + 1) + S.length := by
      simp only [Buf.len, List.length_append, zeros, List.length_replicate]
    simp only [opLinkMapLoop]
    rw [C16_writeString _ m.name (by rw [hlenB]; omega)]
    simp only [hlenB]
    have hstr : pre ++ D ++ zeros (20 * (r.length + 1)) ++ S ++ le 4 (2 * m.name.length) ++ units16LE m.name =
        pre ++ D ++ zeros (20 * (r.length + 1)) ++ S ++ mdStr m.name := by simp [mdStr, List.append_assoc]
    rw [hstr, fill_step linkMapRec (fun m => mdStr m.name) 20 hc arr pre D S m r.length k hpos hsz hD]
    simp only
    have hrl := hc (pre.length + D.length + 20 * (r.length + 1) + S.length) m
    have hD' : (D ++ linkMapRec (pre.length + D.length + 20 * (r.length + 1) + S.length) m).length = 20 * (k + 1) := by
      rw [List.length_append, hrl, hD, Nat.mul_succ]
    rw [ih (D ++ linkMapRec (pre.length + D.length + 20 * (r.length + 1) + S.length) m) (S ++ mdStr m.name) (k + 1) hD'
      (by simp only [List.length_append, hrl, mdStr_length]; omega)]
    have := recsGen_step_eq linkMapRec (fun m => mdStr m.name) 20 hc pre D S m r
    unfold linkMapNames
    rw [this]

/-- `write_dso_debug_stream` once the target's linker data has been read: the link-map array and names (when
    there is at least one object), the MDRawDebug record, the dynamic section bytes -/
def opDso (b : Buf) (x : DDso) : Option (Buf × DirEnt) :=
  let pre : Option (Buf × Nat) :=
    if x.maps.isEmpty then some (b, U32_MAX) else
      let (b1, arr) := Arr.allocArray b x.maps.length 20
      match opLinkMapLoop arr b1 0 x.maps with
      | some b2 => some (b2, arr.location.rva)
      | none => none
  match pre with
  | none => none
  | some (b2, mapRva) =>
    match Slot.allocWithVal b2 (le 4 x.version ++ le 4 mapRva ++ le 4 x.maps.length ++ le 8 x.brk ++ le 8 x.ldbase ++ le 8 x.dynamic) with
    | none => none
    | some (b3, s) =>
      let (b4, _) := Arr.writeBytes b3 x.dyn
      some (b4, ⟨ST_LINUX_DSO_DEBUG, s.location.size + x.dyn.length, s.location.rva⟩)

theorem linkMapRecs_eq' (pos : Nat) (ms : List DLinkMap) :
    linkMapRecs pos ms = recsGen linkMapRec (fun m => (mdStr m.name).length) pos ms := by
  induction ms generalizing pos with
  | nil => rfl
  | cons a r ih => simp [linkMapRecs, recsGen, linkMapRec, ih]

theorem dsoPrefix_length (pos : Nat) (x : DDso) :
    (dsoPrefix pos x).length = if x.maps.isEmpty then 0 else 20 * x.maps.length + (linkMapNames x.maps).length := by
  unfold dsoPrefix
  by_cases h : x.maps.isEmpty
  · simp [h]
  · simp [h, linkMapRecs_eq', recsGen_length linkMapRec _ 20 (by intro p m; simp [linkMapRec])]

/-- **Refinement (linker debug data).** -/
theorem Refine_dso (b : Buf) (x : DDso) (hb : b.len + (dsoPrefix b.len x).length + 36 + x.dyn.length < 2 ^ 32) :
    opDso b x = some (⟨b.inner ++ (dsoPrefix b.len x ++ (serDsoDebug b.len x ++ x.dyn))⟩,
      ⟨ST_LINUX_DSO_DEBUG, 36 + x.dyn.length, b.len + (dsoPrefix b.len x).length⟩) := by
  have hpl := dsoPrefix_length b.len x
  unfold opDso
  by_cases hemp : x.maps.isEmpty
  · have hnil : x.maps = [] := List.isEmpty_iff.mp hemp
    simp only [hemp, if_true] at hpl ⊢
    obtain ⟨b3, s, h3, hin3, hl3⟩ := C16_allocWithVal b
      (le 4 x.version ++ le 4 (U32_MAX) ++ le 4 x.maps.length ++ le 8 x.brk ++ le 8 x.ldbase ++ le 8 x.dynamic)
      (by simp; omega)
    simp only [h3]
    obtain ⟨hw1, _⟩ := C16_writeBytes b3 x.dyn (by simp [Buf.len, hin3] at hb ⊢; omega)
    cases hwb : Arr.writeBytes b3 x.dyn with
    | mk b4 a4 =>
      rw [hwb] at hw1
      simp only at hw1
      simp only [hl3]
      congr 2
      · cases b4; simp only [Buf.mk.injEq]; simp only at hw1
        have hp : dsoPrefix b.len x = [] := by simp only [dsoPrefix, hemp, if_true]
        have hs : serDsoDebug b.len x = le 4 x.version ++ le 4 (U32_MAX) ++ le 4 x.maps.length ++
            le 8 x.brk ++ le 8 x.ldbase ++ le 8 x.dynamic := by simp only [serDsoDebug, hemp, if_true]
        rw [hw1, hin3, hp, hs, List.nil_append, List.append_assoc]
      · simp only [List.length_append, le_length, hpl, Nat.add_zero]
  · have hemp' : x.maps.isEmpty = false := by simpa using hemp
    simp only [hemp', Bool.false_eq_true, if_false] at hpl ⊢
    rw [hpl] at hb
    obtain ⟨ha1, ha2⟩ := C16_allocArray b x.maps.length 20 (by omega)
    cases hal : Arr.allocArray b x.maps.length 20 with
    | mk b1 arr =>
      rw [hal] at ha1 ha2
      simp only at ha1 ha2
      have harr : arr.position = b.inner.length ∧ arr.sz = 20 := by
        have e1 : asU32 b.inner.length = b.inner.length := asU32_of_lt (by simp [Buf.len] at hb; omega)
        have : Arr.allocArray b x.maps.length 20 = (⟨b.inner ++ zeros (x.maps.length * 20)⟩, ⟨asU32 b.inner.length, x.maps.length, 20⟩) := by
          simp [Arr.allocArray, Buf.reserve]
        rw [this] at hal
        injection hal with _ hs
        rw [← hs]; simp [e1]
      have hb1 : b1 = ⟨b.inner ++ [] ++ zeros (20 * x.maps.length) ++ []⟩ := by
        cases b1; simp at ha1; simp [ha1, Nat.mul_comm]
      simp only
      rw [hb1, opLinkMapLoop_spec arr b.inner [] [] x.maps 0 harr.1 harr.2 (by simp)
        (by simp [Buf.len] at hb ⊢; omega)]
      simp only [ha2]
      have hpre : b.inner ++ [] ++ recsGen linkMapRec (fun m => (mdStr m.name).length)
          (b.inner.length + ([] : Bytes).length + 20 * x.maps.length + ([] : Bytes).length) x.maps ++ [] ++ linkMapNames x.maps =
          b.inner ++ dsoPrefix b.len x := by
        simp [dsoPrefix, hemp', linkMapRecs_eq', Buf.len, List.append_assoc]
      rw [hpre]
      have hlenP : (⟨b.inner ++ dsoPrefix b.len x⟩ : Buf).len = b.len + (20 * x.maps.length + (linkMapNames x.maps).length) := by
        simp [Buf.len, dsoPrefix_length, hemp']
      obtain ⟨b3, s, h3, hin3, hl3⟩ := C16_allocWithVal ⟨b.inner ++ dsoPrefix b.len x⟩
        (le 4 x.version ++ le 4 b.len ++ le 4 x.maps.length ++ le 8 x.brk ++ le 8 x.ldbase ++ le 8 x.dynamic)
        (by rw [hlenP]; simp; omega)
      simp only [h3]
      obtain ⟨hw1, _⟩ := C16_writeBytes b3 x.dyn (by simp [Buf.len, hin3, dsoPrefix_length, hemp'] at hb ⊢; omega)
      cases hwb : Arr.writeBytes b3 x.dyn with
      | mk b4 a4 =>
        rw [hwb] at hw1
        simp only at hw1
        simp only [hl3, hlenP]
        congr 2
        · cases b4; simp only [Buf.mk.injEq]; simp only at hw1
          have hs : serDsoDebug b.len x = le 4 x.version ++ le 4 b.len ++ le 4 x.maps.length ++
              le 8 x.brk ++ le 8 x.ldbase ++ le 8 x.dynamic := by
            simp only [serDsoDebug, hemp', Bool.false_eq_true, if_false]
          rw [hw1, hin3, hs]; simp only [List.append_assoc]
        · simp only [List.length_append, le_length, hpl]


-- module list --------------------------------------------------------------------------------------------------------

/-- per module (`fill_raw_module`): the CodeView record when there is an identifier (`alloc_array::<u8>` and one
    `set_value_at` per byte — the reserve-then-fill shape of `alloc_from_array`), then the name string; the record
    keeps both offsets -/
def opModuleBlobs : Buf → List DModule → Option (Buf × List Bytes)
  | b, [] => some (b, [])
  | b, m :: r =>
    let b1 : Option Buf := if m.ident.isEmpty then some b else (Arr.allocFromArray b (m.cv.map (fun x => [x])) 1).map (·.1)
    match b1 with
    | none => none
    | some b1 =>
      match writeString b1 m.name with
      | .ok (b2, _) =>
        match opModuleBlobs b2 r with
        | some (b3, recs) => some (b3, moduleRec b.len m :: recs)
        | none => none
      | _ => none

/-- `mappings::write`: the blobs, then the count, then `alloc_from_iter(records)` when there is at least one -/
def opModules (b : Buf) (ms : List DModule) : Option (Buf × DirEnt) :=
  match opModuleBlobs b ms with
  | none => none
  | some (b1, recs) =>
    match Slot.allocWithVal b1 (le 4 ms.length) with
    | none => none
    | some (b2, hdr) =>
      if ms.isEmpty then some (b2, ⟨ST_MODULE_LIST, hdr.location.size, hdr.location.rva⟩) else
      match Arr.allocFromArray b2 recs 108 with
      | none => none
      | some (b3, arr) => some (b3, ⟨ST_MODULE_LIST, hdr.location.size + arr.location.size, hdr.location.rva⟩)

theorem cv_length (m : DModule) : m.cv.length = if m.ident.isEmpty then 0 else 4 + m.ident.length := by
  unfold DModule.cv; by_cases h : m.ident.isEmpty <;> simp [h]

theorem opModuleBlobs_spec (b : Buf) (ms : List DModule) (hb : b.len + (moduleBlobs ms).length < 2 ^ 32) :
    ∃ recs, opModuleBlobs b ms = some (⟨b.inner ++ moduleBlobs ms⟩, recs) ∧
      recs.flatten = moduleRecs b.len ms ∧ recs.length = ms.length ∧ ∀ v ∈ recs, v.length = 108 := by
  induction ms generalizing b with
  | nil => exact ⟨[], by simp [opModuleBlobs, moduleBlobs], by simp [moduleRecs], rfl, by simp⟩
  | cons m r ih =>
    have hl : (moduleBlobs (m :: r)).length = m.cv.length + (mdStr m.name).length + (moduleBlobs r).length := by
      simp [moduleBlobs, DModule.blob, Nat.add_assoc]
    rw [hl, mdStr_length] at hb
    -- the CodeView record
    have h1 : (if m.ident.isEmpty then some b else (Arr.allocFromArray b (m.cv.map (fun x => [x])) 1).map (·.1)) =
        some ⟨b.inner ++ m.cv⟩ := by
      by_cases hi : m.ident.isEmpty
      · simp [hi, DModule.cv]
      · simp only [hi, Bool.false_eq_true, if_false]
        obtain ⟨b', a, ha, hin, _⟩ := C16_allocFromArray b (m.cv.map (fun x => [x])) 1
          (by intro v hv; simp only [List.mem_map] at hv; obtain ⟨y, _, rfl⟩ := hv; rfl)
          (by simp; omega)
        simp only [ha, Option.map_some]
        cases b'; simp at hin; simp [hin, flatten_singletons]
    have hlen1 : (⟨b.inner ++ m.cv⟩ : Buf).len = b.len + m.cv.length := by simp [Buf.len]
    have hws := C16_writeString ⟨b.inner ++ m.cv⟩ m.name (by rw [hlen1]; omega)
    have hlen2 : (⟨b.inner ++ m.cv ++ le 4 (2 * m.name.length) ++ units16LE m.name⟩ : Buf).len =
        b.len + m.cv.length + (mdStr m.name).length := by simp [Buf.len, mdStr, Nat.add_assoc]
    obtain ⟨recs, h2, h3, h4, h5⟩ := ih ⟨b.inner ++ m.cv ++ le 4 (2 * m.name.length) ++ units16LE m.name⟩
      (by rw [hlen2, mdStr_length]; omega)
    refine ⟨moduleRec b.len m :: recs, ?_, ?_, by simp [h4], ?_⟩
    · simp only [opModuleBlobs, h1, hws, h2]
      simp [moduleBlobs, DModule.blob, mdStr, List.append_assoc]
    · simp only [List.flatten_cons, h3, hlen2, moduleRecs]
      simp [DModule.blob, Nat.add_assoc]
    · intro v hv
      rcases List.mem_cons.mp hv with rfl | hv
      · exact moduleRec_length _ _
      · exact h5 v hv

/-- **Refinement (module list).** -/
theorem Refine_modules (b : Buf) (ms : List DModule) (hb : b.len + (moduleBlobs ms).length + 4 + 108 * ms.length < 2 ^ 32) :
    opModules b ms = some (⟨b.inner ++ (moduleBlobs ms ++ (le 4 ms.length ++ moduleRecs b.len ms))⟩,
      ⟨ST_MODULE_LIST, 4 + 108 * ms.length, b.len + (moduleBlobs ms).length⟩) := by
  obtain ⟨recs, h1, h2, h3, h4⟩ := opModuleBlobs_spec b ms (by omega)
  have hlen1 : (⟨b.inner ++ moduleBlobs ms⟩ : Buf).len = b.len + (moduleBlobs ms).length := by simp [Buf.len]
  obtain ⟨b2, hdr, ha, hb2, hl2⟩ := C16_allocWithVal ⟨b.inner ++ moduleBlobs ms⟩ (le 4 ms.length) (by rw [hlen1]; simp; omega)
  have hlen2 : b2.len = b.len + (moduleBlobs ms).length + 4 := by simp [Buf.len, hb2]; omega
  simp only [opModules, h1, ha, hl2, hlen1]
  by_cases he : ms.isEmpty
  · have hnil : ms = [] := List.isEmpty_iff.mp he
    subst hnil
    simp only [List.isEmpty_nil, if_true]
    congr 2
    cases b2; simp only [Buf.mk.injEq]; simp only at hb2; rw [hb2]; simp [moduleRecs, moduleBlobs]
  · simp only [he, Bool.false_eq_true, if_false]
    obtain ⟨b3, arr, hb_, hb3, hl3⟩ := C16_allocFromArray b2 recs 108 h4 (by rw [hlen2, h3]; omega)
    simp only [hb_, hl3]
    congr 2
    · cases b3; simp only [Buf.mk.injEq]; simp only at hb3; rw [hb3, hb2, h2]; simp [List.append_assoc]
    · simp [h3]; omega

end Mdw
