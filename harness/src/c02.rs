//! C02: hostile inputs. In-process: file-name version parser. Live: linker data crafted in the
//! target's memory (cyclic lists, huge counts, offsets that overflow, structures that end at
//! unreadable memory), mapped files with hostile names, files mapped from /dev/shm watched with inotify.
use crate::live::*;
use crate::recdest::RecDest;
use crate::rng::{hex, Rng};
use minidump_writer::maps_reader::SoVersion;
use minidump_writer::mem_writer::Buffer;
use minidump_writer::verif_hooks::{auxv_from_direct, write_dso_debug_stream};
use minidump_writer::minidump_writer::DirectAuxvDumpInfo;
use std::os::unix::ffi::OsStrExt;
use std::os::unix::fs::FileExt;
use std::panic::{catch_unwind, AssertUnwindSafe};

fn quiet<T>(f: impl FnOnce() -> T) -> Result<T, ()> {
    let prev = std::panic::take_hook();
    std::panic::set_hook(Box::new(|_| {}));
    let r = catch_unwind(AssertUnwindSafe(f));
    std::panic::set_hook(prev);
    r.map_err(|_| ())
}

pub fn case_sover(id: &str, r: &mut Rng) -> String {
    const PIECES: [&str; 22] = ["lib", "foo", ".so", ".so.", "1", "22", "0", ".", "rc", "é", "日", "-", "4294967296", "99999999999", "a", "/", " ", "2rc5", "3é4", "\u{1f600}", "x.so.1", "7"];
    let n = r.range(1, 9);
    let mut s = String::from("/usr/lib/");
    for _ in 0..n {
        let piece: &str = *r.pick(&PIECES[..]);
        s.push_str(piece);
    }
    let mut bytes = s.into_bytes();
    if r.chance(1, 6) {
        let k = r.below(bytes.len() as u64) as usize;
        bytes[k] = *r.pick(&[0xffu8, 0x80, 0xc3, 0xe2]);
    }
    let os = std::ffi::OsStr::from_bytes(&bytes);
    let res = quiet(|| SoVersion::verif_parse(os));
    let out = match res {
        Ok(Some(v)) => format!("some:{}.{}.{}.{}", v.major, v.minor, v.patch, v.prerelease),
        Ok(None) => "none".to_string(),
        Err(_) => "panic".to_string(),
    };
    // the file name component, lossily decoded, as scalar values (std's Path::file_name / to_string_lossy)
    let fname = match std::path::Path::new(os).file_name() {
        Some(f) => {
            let v: Vec<String> = f.to_string_lossy().chars().map(|c| (c as u32).to_string()).collect();
            if v.is_empty() { "-".to_string() } else { v.join(",") }
        }
        None => "none".to_string(),
    };
    format!("C02 {} kind=sover name={} fname={} result={}", id, hex(&bytes), fname, out)
}

fn poke(t: &Target, addr: u64, data: &[u8]) -> bool {
    std::fs::OpenOptions::new().write(true).open(format!("/proc/{}/mem", t.pid)).and_then(|f| f.write_all_at(data, addr)).is_ok()
}

fn phdr(p_type: u32, p_offset: u64, p_vaddr: u64) -> Vec<u8> {
    let mut v = Vec::new();
    v.extend_from_slice(&p_type.to_le_bytes());
    v.extend_from_slice(&0u32.to_le_bytes());
    v.extend_from_slice(&p_offset.to_le_bytes());
    v.extend_from_slice(&p_vaddr.to_le_bytes());
    v.extend_from_slice(&[0u8; 32]);
    v
}

/// craft linker data in a two-page pattern region that is followed by a PROT_NONE page
pub fn case_dso(id: &str, r: &mut Rng) -> String {
    // (the scenarios are taken in turn, so that every one of them occurs in every run: the case number is the id's tail)
    let turn = id.rsplit('-').next().and_then(|x| x.parse::<usize>().ok());
    let scens = ["good", "cyclic", "selfloop", "hugephnum", "mulphnum", "vaddr-underflow", "dyn-overflow", "dyn-short", "rdebug-unreadable", "linkmap-short", "name-unreadable", "no-null", "bigphnum", "rho", "tail-selfloop", "rho-long", "no-null-odd"];
    let picked = *r.pick(&scens);
    let scen = match turn { Some(k) => scens[k % scens.len()], None => picked };
    // (bigphnum: a program-header count beyond what an ELF header can announce, over a region large enough for all of
    // those headers to be read)
    let t = match Target::spawn(&["-r".to_string(), if scen == "bigphnum" { "4194304:r".to_string() } else { "8192:n".to_string() }]) {
        Ok(t) => t,
        Err(_) => return format!("C02 {} kind=spawnfail", id),
    };
    let reg = t.desc["regions"][0]["addr"].as_u64().unwrap();
    let end = reg + 8192;
    // defaults: PT_LOAD(offset 0, vaddr 0), PT_DYNAMIC at +0x200, r_debug at +0x400, link_maps at +0x600, names at +0x800
    let mut phnum: u64 = 2;
    let mut load_vaddr: u64 = 0;
    let mut dyn_vaddr: u64 = 0x200;
    let rdebug = reg + 0x400;
    let lm0 = reg + 0x600;
    let mut dynamic: Vec<(u64, u64)> = vec![(1, 1), (21, rdebug), (0, 0)];
    let mut maps: Vec<(u64, u64, u64, u64)> = vec![(0x1000, reg + 0x800, 0x2000, lm0 + 40), (0x3000, 0, 0x4000, 0)];
    match scen {
        "cyclic" => maps[1].3 = lm0,
        "selfloop" => maps[0].3 = lm0,
        // cycles that never come back to the head of the list
        "tail-selfloop" => maps[1].3 = lm0 + 40,
        "rho" => { maps[1].3 = lm0 + 80; maps.push((0x5000, 0, 0x6000, lm0 + 40)); }
        "rho-long" => {
            let n = r.range(3, 9);
            for k in 2..n { maps[(k - 1) as usize].3 = lm0 + 40 * k; maps.push((0x1000 * (2 * k + 1), 0, 0x1000 * (2 * k + 2), 0)); }
            let back = r.range(1, n - 1);
            maps[(n - 1) as usize].3 = lm0 + 40 * back;
        }
        "hugephnum" => phnum = 1 << 40,
        "bigphnum" => phnum = *r.pick(&[65535u64, 65536, 65537, 70000, 74000]),
        "mulphnum" => phnum = u64::MAX / 8,
        "vaddr-underflow" => load_vaddr = reg + 0x1000_0000,
        "dyn-overflow" => dyn_vaddr = u64::MAX - 0x100,
        "dyn-short" => { dyn_vaddr = 8192 - 8; }
        "rdebug-unreadable" => dynamic[1].1 = end + 16,
        "linkmap-short" => maps[0].3 = end - 8,
        "name-unreadable" => maps[0].1 = end - 3,
        "no-null" => { dynamic.pop(); dyn_vaddr = 8192 - 32; }
        // … a table that is 8- but not 16-byte aligned: the read of the entry after the last one is *short* (8 bytes)
        "no-null-odd" => { dynamic.pop(); dyn_vaddr = 8192 - 40; }
        _ => {}
    }
    let mut ph = phdr(1, 0, load_vaddr);
    ph.extend(phdr(2, 0x200, dyn_vaddr));
    poke(&t, reg, &ph);
    let mut dynb = Vec::new();
    for (tag, val) in &dynamic {
        dynb.extend_from_slice(&tag.to_le_bytes());
        dynb.extend_from_slice(&val.to_le_bytes());
    }
    let dyn_addr = reg.wrapping_add(dyn_vaddr);
    if dyn_addr >= reg && dyn_addr + (dynb.len() as u64) <= end {
        poke(&t, dyn_addr, &dynb);
    } else if dyn_addr >= reg && dyn_addr < end {
        poke(&t, dyn_addr, &dynb[..(end - dyn_addr) as usize]);
    }
    let mut rd = Vec::new();
    rd.extend_from_slice(&1u64.to_le_bytes()); // r_version (+pad)
    rd.extend_from_slice(&lm0.to_le_bytes());
    rd.extend_from_slice(&0x1234u64.to_le_bytes());
    rd.extend_from_slice(&0u64.to_le_bytes());
    rd.extend_from_slice(&0x5678u64.to_le_bytes());
    poke(&t, rdebug, &rd);
    for (i, (a, n, l, nx)) in maps.iter().enumerate() {
        let mut b = Vec::new();
        for v in [a, n, l, nx, &0u64] {
            b.extend_from_slice(&v.to_le_bytes());
        }
        poke(&t, lm0 + 40 * i as u64, &b);
    }
    poke(&t, reg + 0x800, b"/lib/crafted.so\0");
    // run the real function under a watchdog: a hang is a violation, not a harness hang
    let pid = t.pid;
    let (tx, rx) = std::sync::mpsc::channel();
    let handle = std::thread::spawn(move || {
        let auxv = auxv_from_direct(DirectAuxvDumpInfo { program_header_count: phnum, program_header_address: reg, linux_gate_address: 1, entry_address: 1 });
        let mut buf = Buffer::with_capacity(0);
        let r = catch_unwind(AssertUnwindSafe(|| write_dso_debug_stream(&mut buf, pid, &auxv)));
        let _ = tx.send(match r {
            Ok(Ok(d)) => format!("ok:{}", d.location.data_size),
            Ok(Err(_)) => "err".to_string(),
            Err(_) => "panic".to_string(),
        });
    });
    let prev = std::panic::take_hook();
    std::panic::set_hook(Box::new(|_| {}));
    let result = match rx.recv_timeout(std::time::Duration::from_secs(3)) {
        Ok(s) => s,
        Err(_) => {
            // make the reads fail so that the runaway loop ends
            unsafe { libc::kill(pid, libc::SIGKILL) };
            "hang".to_string()
        }
    };
    let _ = handle.join();
    std::panic::set_hook(prev);
    format!("C02 {} kind=dso scen={} result={}", id, scen, result)
}

fn inotify_opens(fd: i32) -> usize {
    let mut buf = [0u8; 4096];
    let mut n = 0;
    loop {
        let r = unsafe { libc::read(fd, buf.as_mut_ptr() as *mut _, buf.len()) };
        if r <= 0 {
            break;
        }
        let mut off = 0usize;
        while off + 16 <= r as usize {
            let mask = u32::from_ne_bytes(buf[off + 4..off + 8].try_into().unwrap());
            let len = u32::from_ne_bytes(buf[off + 12..off + 16].try_into().unwrap()) as usize;
            if mask & libc::IN_OPEN != 0 {
                n += 1;
            }
            off += 16 + len;
        }
    }
    n
}

/// whole dumps of targets that map files with hostile names / from /dev/shm
pub fn case_files(id: &str, r: &mut Rng) -> String {
    let scen = *r.pick(&["devshm-nonelf", "devshm-elf", "weird-name", "sover-name", "sysv-name", "space-name"]);
    let dir = run_dir("C02files");
    let body_nonelf = vec![0x41u8; 8192];
    let elf = crate::tiny_elf::TINY_ELF;
    let mut elf_padded = elf.to_vec();
    elf_padded.resize(8192, 0);
    let (path, content): (String, Vec<u8>) = match scen {
        "devshm-nonelf" => (format!("/dev/shm/verif-{}-{}", std::process::id(), r.next() % 100000), body_nonelf),
        "devshm-elf" => (format!("/dev/shm/verif-{}-{}.so", std::process::id(), r.next() % 100000), elf_padded),
        "weird-name" => (format!("{}/lib\u{e9}\u{65e5}\u{672c}.so.1", dir), elf_padded),
        "sover-name" => (format!("{}/libx.so.1.2.3\u{e9}4", dir), elf_padded),
        "sysv-name" => ("/SYSVab".to_string(), body_nonelf),
        _ => (format!("{}/my lib (deleted).so.2", dir), elf_padded),
    };
    if std::fs::write(&path, &content).is_err() {
        return format!("C02 {} kind=files scen={} result=skip", id, scen);
    }
    let prot = *r.pick(&["rx", "r"]);
    let t = Target::spawn(&["-m".to_string(), format!("{}:{}:0", path, prot)]);
    let t = match t {
        Ok(t) => t,
        Err(_) => {
            let _ = std::fs::remove_file(&path);
            return format!("C02 {} kind=files scen={} result=skip", id, scen);
        }
    };
    // watch the file: nobody but the dumper touches it from now on
    let ifd = unsafe { libc::inotify_init1(libc::IN_NONBLOCK) };
    let cpath = std::ffi::CString::new(path.as_bytes()).unwrap();
    let wd = unsafe { libc::inotify_add_watch(ifd, cpath.as_ptr(), libc::IN_OPEN) };
    let mut cfg = DumpCfg::default();
    cfg.blamed = t.threads[0].tid;
    let mut dest = RecDest::new(vec![], 0);
    let o = dump_case("C02", id, &t, &cfg, &mut dest, "");
    let opens = if wd >= 0 { inotify_opens(ifd) } else { 0 };
    unsafe { libc::close(ifd) };
    let _ = std::fs::remove_file(&path);
    format!("{} scen={} path={} opens={}", o.line.replacen("kind=dump", "kind=files", 1), scen, hex(path.as_bytes()), opens)
}

/// a mapped module whose file is, by the time of the dump, empty, shorter than the mapping, or replaced by an empty file
/// at the same path (a program being upgraded while it runs). Run in a worker process: reading a file mapping beyond
/// the end of the file raises SIGBUS.
pub fn case_truncated(id: &str, r: &mut Rng) -> String {
    let dir = run_dir("C02files");
    let path = format!("{}/trunc-{}-{}.so", dir, std::process::id(), r.next() % 100000);
    // a well-formed module with a build id (reachable through its program headers, i.e. from memory) and no SONAME:
    // its name is then looked up in the file at its path
    let mut spec = crate::elfgen::gen_spec(r);
    spec.is64 = true;
    spec.be = false;
    spec.build_id = Some(r.bytes(20));
    spec.note_phdr = true;
    spec.has_phdrs = true;
    spec.has_sections = true;
    spec.soname = None;
    spec.soname_at_strsz = None;
    spec.bias = 0;
    spec.empty_note_segment = false;
    spec.tail = *r.pick(&[5000usize, 9000, 20000]);
    let content = crate::elfgen::build(&spec).bytes;
    if std::fs::write(&path, &content).is_err() {
        return format!("C02 {} kind=files scen=truncated result=skip", id);
    }
    let prot = *r.pick(&["rx", "r"]);
    let t = match Target::spawn(&["-m".to_string(), format!("{}:{}:0", path, prot)]) {
        Ok(t) => t,
        Err(_) => {
            let _ = std::fs::remove_file(&path);
            return format!("C02 {} kind=files scen=truncated result=skip", id);
        }
    };
    let how = *r.pick(&["empty", "short", "replaced-empty", "replaced-short", "page"]);
    match how {
        "empty" => { let _ = std::fs::OpenOptions::new().write(true).open(&path).and_then(|f| f.set_len(0)); }
        "short" => { let _ = std::fs::OpenOptions::new().write(true).open(&path).and_then(|f| f.set_len(100)); }
        "page" => { let _ = std::fs::OpenOptions::new().write(true).open(&path).and_then(|f| f.set_len(4096)); }
        "replaced-empty" => { let _ = std::fs::remove_file(&path); let _ = std::fs::write(&path, b""); }
        _ => { let _ = std::fs::remove_file(&path); let _ = std::fs::write(&path, &content[..64]); }
    }
    let mut cfg = DumpCfg::default();
    cfg.blamed = t.threads[0].tid;
    let mut dest = RecDest::new(vec![], 0);
    let o = dump_case("C02", id, &t, &cfg, &mut dest, "");
    let _ = std::fs::remove_file(&path);
    format!("{} scen=truncated-{} path={} opens=0", o.line.replacen("kind=dump", "kind=files", 1), how, hex(path.as_bytes()))
}

/// a target whose thread-group leader has exited (a zombie: never seen stopped, cannot be attached to), dumped with
/// every kind of waiting time for the stop request — the request must return
pub fn case_zombie(id: &str, r: &mut Rng) -> String {
    let nblock = r.range(1, 3);
    let t = match Target::spawn(&["-t".to_string(), nblock.to_string(), "-Z".to_string()]) {
        Ok(t) => t,
        Err(_) => return format!("C02 {} kind=spawnfail result=skip", id),
    };
    let mut cfg = DumpCfg::default();
    cfg.blamed = *r.pick(&[t.threads[1].tid, t.threads[1].tid, t.threads[0].tid]);
    cfg.stop_timeout_ns = Some(*r.pick(&[0u64, 1, 300_000, 999_999, 1_000_001, 2_500_000, 3_000_000]));
    let mut dest = crate::recdest::RecDest::new(vec![], 0);
    let o = dump_case("C02", id, &t, &cfg, &mut dest, &format!("zombie=1 timeout={}", cfg.stop_timeout_ns.unwrap()));
    o.line
}

pub fn generate(seed: u64, tier: &str, out: &mut dyn std::io::Write) {
    let (nsov, ndso, nfiles) = if tier == "thorough" { (100000, 200, 80) } else { (10000, 36, 18) };
    for i in 0..(if tier == "thorough" { 40 } else { 8 }) {
        let (lines, sig) = run_worker(&["worker".to_string(), "truncated".to_string(), seed.to_string(), i.to_string()]);
        match sig {
            Some(s) => writeln!(out, "C02 k{}-{} kind=files scen=truncated result=killed:{} path=- opens=0", seed, i, s).unwrap(),
            None => { for l in lines { writeln!(out, "{}", l).unwrap(); } }
        }
    }
    for i in 0..(if tier == "thorough" { 60 } else { 10 }) {
        writeln!(out, "{}", case_zombie(&format!("z{}-{}", seed, i), &mut Rng::for_case(seed, 3002, i))).unwrap();
    }
    for i in 0..nsov {
        crate::rng::progress(&format!("v{}-{}", seed, i));
        writeln!(out, "{}", case_sover(&format!("v{}-{}", seed, i), &mut Rng::for_case(seed, 2, i))).unwrap();
    }
    for i in 0..ndso {
        crate::rng::progress(&format!("d{}-{}", seed, i));
        writeln!(out, "{}", case_dso(&format!("d{}-{}", seed, i), &mut Rng::for_case(seed, 1002, i))).unwrap();
    }
    for i in 0..nfiles {
        crate::rng::progress(&format!("m{}-{}", seed, i));
        writeln!(out, "{}", case_files(&format!("m{}-{}", seed, i), &mut Rng::for_case(seed, 2002, i))).unwrap();
    }
}
