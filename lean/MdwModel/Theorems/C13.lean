/-
  C13 — Mapping aggregation preserves the address-space picture  (MappingInfo::aggregate)

  For every well-formed memory map (`linesOk`: non-empty ranges, ascending, non-overlapping), any
  names / permissions / offsets and any vDSO address:

    C13_decomposition     the output is, in order, one mapping per block of a partition of the
                          lines into consecutive blocks; each mapping is the hull of its block, the
                          block is contiguous, and every line after the first was merged for one of
                          the three admissible reasons (`blockOk`, the predicate the driver also
                          evaluates on the implementation's output)
    C13_sorted_disjoint   ascending, pairwise disjoint, non-empty
    C13_cover             every line lies inside some output mapping …
    C13_cover_unique      … and in at most one
    C13_gate              the mapping starting at the vDSO address whose line has no path name is
                          named linux-gate.so with offset 0
    C13_sys_in_hull       sysStart = start ∧ sysEnd ≤ end (used by C12 / C06 / C20)
-/
import MdwModel.Lemmas.Maps
namespace Mdw

theorem GInv_nil (gate : Option Nat) : GInv gate [] [] 0 :=
  ⟨rfl, by simp, trivial, by simp⟩

/-- the ghost run: mappings with their blocks, oldest first -/
theorem C13_ghost (gate : Option Nat) (ls : List MLine) (h : linesOk ls = true) :
    ∃ gs : List GM, aggregate gate ls = gs.map GM.m ∧ gs.flatMap GM.blk = ls ∧
      (∀ g ∈ gs, GOk gate g) ∧ sortedDesc gs.reverse := by
  obtain ⟨le, hinv⟩ := GInv_fold gate [] [] ls 0 (GInv_nil gate) (by intro l _; omega) h
  refine ⟨(ls.foldl (aggStepG gate) []).reverse, ?_, ?_, ?_, ?_⟩
  · unfold aggregate
    rw [List.map_reverse, foldG_erase]; rfl
  · simpa using hinv.flat
  · intro g hg; exact hinv.ok g (by simpa using hg)
  · simpa using hinv.sorted

theorem contiguous_true_of (blk : List MLine) (h : contiguous blk = true) : contiguous blk = true := h

theorem GOk_blockOk (gate : Option Nat) (g : GM) (hg : GOk gate g) : blockOk gate g.m g.blk = true := by
  obtain ⟨⟨f, rest, hblk, hs, hn, ho, hp⟩, ⟨l, hl, hle⟩, hc, hsy, hpos, hex, hw, hr⟩ := hg
  unfold blockOk
  have hh : g.blk.head? = some f := by rw [hblk]; rfl
  rw [hh, hl]
  simp only [Bool.and_eq_true, beq_iff_eq, decide_eq_true_eq, List.all_eq_true, List.mem_range,
    Bool.or_eq_true]
  refine ⟨⟨⟨⟨⟨⟨hs, hle⟩, hc⟩, hsy.1⟩, hsy.2⟩, hn⟩, ?_⟩
  intro i hi
  by_cases h0 : i = 0
  · exact Or.inl h0
  · exact Or.inr (hr i (by omega) hi)

/-- **C13 (decomposition / hull / merge soundness).** -/
theorem C13_decomposition (gate : Option Nat) (ls : List MLine) (h : linesOk ls = true) :
    ∃ gs : List GM, aggregate gate ls = gs.map GM.m ∧ gs.flatMap GM.blk = ls ∧
      ∀ g ∈ gs, blockOk gate g.m g.blk = true := by
  obtain ⟨gs, h1, h2, h3, _⟩ := C13_ghost gate ls h
  exact ⟨gs, h1, h2, fun g hg => GOk_blockOk gate g (h3 g hg)⟩

theorem sortedDisjoint_of (gate : Option Nat) (gs : List GM) (hok : ∀ g ∈ gs, GOk gate g)
    (hs : sortedDesc gs.reverse) : sortedDisjoint (gs.map GM.m) = true := by
  -- work on the reversed list: rs = gs.reverse is newest first
  have key : ∀ rs : List GM, (∀ g ∈ rs, GOk gate g) → sortedDesc rs →
      sortedDisjoint (rs.reverse.map GM.m) = true := by
    intro rs
    induction rs with
    | nil => intro _ _; rfl
    | cons a r ih =>
      intro hok hs
      have hpa := (hok a (by simp)).pos
      have hsa : 0 < a.m.size := by simp [Mapping.end_] at hpa; omega
      cases r with
      | nil => simp [sortedDisjoint, hsa]
      | cons b r' =>
        have ihr := ih (fun g hg => hok g (by simp [hg])) hs.2
        -- (a :: b :: r').reverse = (b :: r').reverse ++ [a]; last of (b::r').reverse is b
        have : ∀ (xs : List Mapping) (x y : Mapping), sortedDisjoint (xs ++ [x]) = true → x.end_ ≤ y.start →
            0 < y.size → sortedDisjoint (xs ++ [x] ++ [y]) = true := by
          intro xs
          induction xs with
          | nil => intro x y h1 h2 h3; simp [sortedDisjoint] at *; exact ⟨⟨h1, h2⟩, h3⟩
          | cons z zs ihz =>
            intro x y h1 h2 h3
            cases zs with
            | nil =>
              simp [sortedDisjoint] at h1 ⊢
              exact ⟨⟨h1.1.1, h1.1.2⟩, ⟨h1.2, h2⟩, h3⟩
            | cons w ws =>
              simp only [List.cons_append, sortedDisjoint, Bool.and_eq_true] at h1 ⊢
              exact ⟨h1.1, by simpa using ihz x y (by simpa using h1.2) h2 h3⟩
        have e : (a :: b :: r').reverse.map GM.m = (r'.reverse.map GM.m) ++ [b.m] ++ [a.m] := by simp
        rw [e]
        apply this
        · have : (b :: r').reverse.map GM.m = r'.reverse.map GM.m ++ [b.m] := by simp
          rw [← this]; exact ihr
        · exact hs.1
        · exact hsa
  have := key gs.reverse (fun g hg => hok g (by simpa using hg)) hs
  simpa using this

/-- **C13 (order).** -/
theorem C13_sorted_disjoint (gate : Option Nat) (ls : List MLine) (h : linesOk ls = true) :
    sortedDisjoint (aggregate gate ls) = true := by
  obtain ⟨gs, h1, _, h3, h4⟩ := C13_ghost gate ls h
  rw [h1]; exact sortedDisjoint_of gate gs h3 h4

/-- **C13 (cover).** every line of the map is contained in a derived mapping -/
theorem C13_cover (gate : Option Nat) (ls : List MLine) (h : linesOk ls = true) :
    ∀ l ∈ ls, ∃ m ∈ aggregate gate ls, m.start ≤ l.s ∧ l.e ≤ m.end_ := by
  obtain ⟨gs, h1, h2, h3, _⟩ := C13_ghost gate ls h
  intro l hl
  rw [← h2] at hl
  obtain ⟨g, hg, hlg⟩ := List.mem_flatMap.mp hl
  have := (h3 g hg).within l hlg
  exact ⟨g.m, by rw [h1]; exact List.mem_map_of_mem hg, this.1, this.2.1⟩

theorem sortedDisjoint_pairwise (out : List Mapping) (h : sortedDisjoint out = true) :
    out.Pairwise (fun a b => a.end_ ≤ b.start ∧ 0 < b.size ∧ 0 < a.size) := by
  induction out with
  | nil => exact List.Pairwise.nil
  | cons a r ih =>
    cases r with
    | nil => exact List.pairwise_singleton _ _
    | cons b r' =>
      simp only [sortedDisjoint, Bool.and_eq_true, decide_eq_true_eq] at h
      have ihr := ih h.2
      refine List.Pairwise.cons ?_ ihr
      intro c hc
      rcases List.mem_cons.mp hc with hc | hc
      · subst hc
        have hb : 0 < c.size := by
          cases r' with
          | nil => simpa [sortedDisjoint] using h.2
          | cons d r'' => simp only [sortedDisjoint, Bool.and_eq_true, decide_eq_true_eq] at h; exact h.2.1.1
        exact ⟨h.1.2, hb, h.1.1⟩
      · have hbc := (List.pairwise_cons.mp ihr).1 c hc
        simp [Mapping.end_] at *
        omega

/-- **C13 (cover, uniqueness).** two derived mappings containing the same (non-empty) line are
    the same element of the output -/
theorem C13_cover_unique (gate : Option Nat) (ls : List MLine) (h : linesOk ls = true)
    (s e : Nat) (hse : s < e) (i j : Nat) (mi mj : Mapping)
    (hi : (aggregate gate ls)[i]? = some mi) (hj : (aggregate gate ls)[j]? = some mj)
    (ci : mi.start ≤ s ∧ e ≤ mi.end_) (cj : mj.start ≤ s ∧ e ≤ mj.end_) : i = j := by
  have hp := sortedDisjoint_pairwise _ (C13_sorted_disjoint gate ls h)
  rcases Nat.lt_trichotomy i j with hlt | heq | hgt
  · have := List.pairwise_iff_getElem.mp hp i j (by
      have := List.getElem?_eq_some_iff.mp hi; exact this.1) (by
      have := List.getElem?_eq_some_iff.mp hj; exact this.1) hlt
    have e1 := (List.getElem?_eq_some_iff.mp hi).2
    have e2 := (List.getElem?_eq_some_iff.mp hj).2
    rw [e1, e2] at this
    omega
  · exact heq
  · have := List.pairwise_iff_getElem.mp hp j i (by
      have := List.getElem?_eq_some_iff.mp hj; exact this.1) (by
      have := List.getElem?_eq_some_iff.mp hi; exact this.1) hgt
    have e1 := (List.getElem?_eq_some_iff.mp hi).2
    have e2 := (List.getElem?_eq_some_iff.mp hj).2
    rw [e1, e2] at this
    omega

/-- **C13 (linux gate).** -/
theorem C13_gate (gate : Nat) (ls : List MLine) (h : linesOk ls = true) :
    ∃ gs : List GM, aggregate (some gate) ls = gs.map GM.m ∧ gs.flatMap GM.blk = ls ∧
      ∀ g ∈ gs, ∀ f, g.blk.head? = some f → g.m.start = f.s ∧
        (f.s = gate → isPathName (pathnameOf f.path) = false →
          g.m.name = some LINUX_GATE ∧ g.m.offset = 0) := by
  obtain ⟨gs, h1, h2, h3, _⟩ := C13_ghost (some gate) ls h
  refine ⟨gs, h1, h2, ?_⟩
  intro g hg f hf
  obtain ⟨f', rest, hblk, hs, hn, ho, _⟩ := (h3 g hg).head
  rw [hblk] at hf; simp at hf; subst hf
  refine ⟨hs, ?_⟩
  intro hgate hnp
  simp [effNameOff, hnp, hgate] at hn ho
  exact ⟨hn, ho⟩

/-- **C13 (system range inside the hull).** -/
theorem C13_sys_in_hull (gate : Option Nat) (ls : List MLine) (h : linesOk ls = true) :
    ∀ m ∈ aggregate gate ls, m.sysStart = m.start ∧ m.sysEnd ≤ m.end_ ∧ m.start < m.end_ := by
  obtain ⟨gs, h1, _, h3, _⟩ := C13_ghost gate ls h
  intro m hm
  rw [h1] at hm
  obtain ⟨g, hg, rfl⟩ := List.mem_map.mp hm
  exact ⟨(h3 g hg).sys.1, (h3 g hg).sys.2, (h3 g hg).pos⟩

/-- Non-vacuity: a concrete well-formed map in which all three rules fire. -/
example :
    let a : Bytes := [47, 108, 105, 98, 47, 97, 46, 115, 111]          -- "/lib/a.so"
    let ls : List MLine := [⟨0x1000, 0x2000, 1 + 16, 0, .path a⟩,
      ⟨0x2000, 0x3000, 16, 0, .anon⟩, ⟨0x3000, 0x4000, 5 + 16, 0x1000, .path a⟩,
      ⟨0x4000, 0x5000, 16, 0, .anon⟩, ⟨0x5000, 0x6000, 3 + 16, 0x3000, .path (a ++ DELETED_SUFFIX)⟩,
      ⟨0x9000, 0xa000, 5 + 16, 0, .anon⟩]
    linesOk ls = true ∧ (aggregate (some 0x9000) ls).map (fun m => (m.start, m.size, m.sysEnd)) =
      [(0x1000, 0x5000, 0x6000), (0x9000, 0x1000, 0xa000)] ∧
      c13All (some 0x9000) ls (aggregate (some 0x9000) ls) = true := by decide

/-! ### the predicate evaluated on the implementation's output accepts the model's output -/

theorem linesOk_tail (a : MLine) (l : List MLine) (h : linesOk (a :: l) = true) : linesOk l = true := by
  cases l with
  | nil => rfl
  | cons b r => simp only [linesOk, Bool.and_eq_true] at h; exact h.2

theorem linesOk_append_right (a b : List MLine) (h : linesOk (a ++ b) = true) : linesOk b = true := by
  induction a with
  | nil => simpa using h
  | cons x xs ih => exact ih (linesOk_tail x (xs ++ b) h)

/-- in a well-formed map, the line after a non-empty prefix starts at or after the prefix's last end
    and is itself non-empty -/
theorem linesOk_boundary (a : List MLine) (l hd : MLine) (t : List MLine)
    (h : linesOk (a ++ hd :: t) = true) (hl : a.getLast? = some l) : l.e ≤ hd.s ∧ hd.s < hd.e := by
  induction a with
  | nil => simp at hl
  | cons x xs ih =>
    cases xs with
    | nil =>
      simp at hl; subst hl
      simp only [List.cons_append, List.nil_append, linesOk, Bool.and_eq_true, decide_eq_true_eq] at h
      have h2 := h.2
      cases t with
      | nil => simp only [linesOk, decide_eq_true_eq] at h2; exact ⟨h.1.2, h2⟩
      | cons t0 ts => simp only [linesOk, Bool.and_eq_true, decide_eq_true_eq] at h2; exact ⟨h.1.2, h2.1.1⟩
    | cons y ys =>
      have hl' : (y :: ys).getLast? = some l := by simpa [List.getLast?_cons_cons] using hl
      exact ih (linesOk_tail x _ h) hl'

theorem hullOk_step (gate : Option Nat) (m : Mapping) (blk rest : List MLine) (ms : List Mapping)
    (h1 : ∀ l ∈ blk, l.e ≤ m.end_) (h2 : ∀ hd t, rest = hd :: t → m.end_ < hd.e) :
    hullOk gate (blk ++ rest) (m :: ms) = (blockOk gate m blk && hullOk gate rest ms) := by
  have htw : (blk ++ rest).takeWhile (fun l => decide (l.e ≤ m.end_)) = blk := by
    rw [List.takeWhile_append_of_pos (by intro l hl; simpa using h1 l hl)]
    cases rest with
    | nil => simp
    | cons hd t =>
      have := h2 hd t rfl
      have : decide (hd.e ≤ m.end_) = false := by simp; omega
      simp [List.takeWhile_cons, this]
  have hdw : (blk ++ rest).dropWhile (fun l => decide (l.e ≤ m.end_)) = rest := by
    rw [List.dropWhile_append_of_pos (by intro l hl; simpa using h1 l hl)]
    cases rest with
    | nil => simp
    | cons hd t =>
      have := h2 hd t rfl
      have : decide (hd.e ≤ m.end_) = false := by simp; omega
      simp [List.dropWhile_cons, this]
  cases hb : blk ++ rest with
  | nil =>
    have hbn : blk = [] := (List.append_eq_nil_iff.mp hb).1
    have hrn : rest = [] := (List.append_eq_nil_iff.mp hb).2
    subst hbn; subst hrn
    simp [hullOk, blockOk]
  | cons x xs =>
    rw [← hb]
    conv => lhs; unfold hullOk
    split
    · rename_i heq; simp [hb] at heq
    · rename_i ls m' ms' heq1 heq2
      cases heq2
      simp only [htw, hdw]
    · rename_i heq; cases heq

/-- **C13 (the check's predicate holds of the model).** The greedy block decomposition that the check
    evaluates on the implementation's output accepts the model's output for every well-formed map: the
    predicate demands nothing the theorem does not give. -/
theorem C13_hullOk (gate : Option Nat) (ls : List MLine) (h : linesOk ls = true) :
    hullOk gate ls (aggregate gate ls) = true := by
  obtain ⟨gs, h1, h2, h3, h4⟩ := C13_ghost gate ls h
  rw [h1, ← h2]
  have hls : linesOk (gs.flatMap GM.blk) = true := by rw [h2]; exact h
  clear h1 h2 h h4
  induction gs with
  | nil => simp [hullOk]
  | cons g r ih =>
    simp only [List.flatMap_cons, List.map_cons]
    have hg := h3 g (List.mem_cons_self ..)
    obtain ⟨l, hl, hle⟩ := hg.last
    rw [hullOk_step gate g.m g.blk (r.flatMap GM.blk) (r.map GM.m)
      (fun x hx => (hg.within x hx).2.1)
      (by
        intro hd t hrest
        have hb := linesOk_boundary g.blk l hd t (by simpa [List.flatMap_cons, hrest] using hls) hl
        omega)]
    rw [GOk_blockOk gate g hg, Bool.true_and]
    exact ih (fun x hx => h3 x (List.mem_cons_of_mem _ hx))
      (linesOk_append_right g.blk _ (by simpa [List.flatMap_cons] using hls))

theorem filter_length_le_one {α} (p : α → Bool) (R : α → α → Prop) (l : List α) (hp : l.Pairwise R)
    (hx : ∀ a b, R a b → ¬ (p a = true ∧ p b = true)) : (l.filter p).length ≤ 1 := by
  induction l with
  | nil => simp
  | cons a l ih =>
    have ha := (List.pairwise_cons.mp hp).1
    have hl := (List.pairwise_cons.mp hp).2
    by_cases hpa : p a = true
    · have : l.filter p = [] := by
        rw [List.filter_eq_nil_iff]
        intro b hb hpb
        exact hx a b (ha b hb) ⟨hpa, hpb⟩
      simp [List.filter_cons, hpa, this]
    · simp only [List.filter_cons, hpa, Bool.false_eq_true, ↓reduceIte]
      exact ih hl

/-- every line lies in exactly one mapping of the model's output -/
theorem C13_coveredOnce (gate : Option Nat) (ls : List MLine) (h : linesOk ls = true) :
    coveredOnce ls (aggregate gate ls) = true := by
  unfold coveredOnce
  rw [List.all_eq_true]
  intro l hl
  obtain ⟨gs, h1, h2, h3, _⟩ := C13_ghost gate ls h
  have hlpos : l.s < l.e := by
    rw [← h2] at hl
    obtain ⟨g, hg, hlg⟩ := List.mem_flatMap.mp hl
    exact ((h3 g hg).within l hlg).2.2
  obtain ⟨m, hm, hc⟩ := C13_cover gate ls h l hl
  have hpw := sortedDisjoint_pairwise _ (C13_sorted_disjoint gate ls h)
  have hle := filter_length_le_one (fun m => decide (m.start ≤ l.s) && decide (l.e ≤ m.end_)) _ _ hpw (by
    intro a b hab hboth
    simp only [Bool.and_eq_true, decide_eq_true_eq] at hboth
    have := hab.1
    omega)
  have hge : 1 ≤ ((aggregate gate ls).filter (fun m => decide (m.start ≤ l.s) && decide (l.e ≤ m.end_))).length := by
    apply List.length_pos_of_mem (a := m)
    rw [List.mem_filter]
    exact ⟨hm, by simp [hc.1, hc.2]⟩
  unfold containers
  simp only [beq_iff_eq]
  omega

theorem linesOk_append_left (a b : List MLine) (h : linesOk (a ++ b) = true) : linesOk a = true := by
  induction a with
  | nil => rfl
  | cons x xs ih =>
    cases xs with
    | nil =>
      cases b with
      | nil => simpa using h
      | cons y ys => simp only [List.cons_append, List.nil_append, linesOk, Bool.and_eq_true] at h; simpa [linesOk] using h.1.1
    | cons y ys =>
      simp only [List.cons_append, linesOk, Bool.and_eq_true] at h ⊢
      exact ⟨h.1, ih h.2⟩

theorem linesOk_head_lt (f : MLine) (rest : List MLine) (h : linesOk (f :: rest) = true) :
    ∀ x ∈ rest, f.s < x.s := by
  induction rest generalizing f with
  | nil => intro x hx; cases hx
  | cons y ys ih =>
    simp only [linesOk, Bool.and_eq_true, decide_eq_true_eq] at h
    intro x hx
    rcases List.mem_cons.mp hx with rfl | hx'
    · omega
    · have := ih y h.2 x hx'
      have hy : y.s < y.e ∨ True := Or.inr trivial
      omega

/-- the linux-gate rule holds of the model's output -/
theorem C13_gateOk (gate : Option Nat) (ls : List MLine) (h : linesOk ls = true) :
    gateOk gate ls (aggregate gate ls) = true := by
  cases gate with
  | none => rfl
  | some g0 =>
    unfold gateOk
    simp only
    rw [List.all_eq_true]
    intro l hl
    by_cases hgate : (l.s == g0 && !isPathName (pathnameOf l.path)) = true
    · simp only [hgate, Bool.not_true, Bool.false_or]
      obtain ⟨gs, h1, h2, h3, _⟩ := C13_ghost (some g0) ls h
      have hl' := hl
      rw [← h2] at hl'
      obtain ⟨g, hg, hlg⟩ := List.mem_flatMap.mp hl'
      rw [List.any_eq_true]
      refine ⟨g.m, by rw [h1]; exact List.mem_map_of_mem hg, ?_⟩
      have hw := (h3 g hg).within l hlg
      simp only [Bool.and_eq_true, decide_eq_true_eq, Bool.or_eq_true, bne_iff_ne, ne_eq, beq_iff_eq]
      refine ⟨⟨hw.1, hw.2.1⟩, ?_⟩
      by_cases hs : g.m.start = l.s
      · right
        obtain ⟨f, rest, hblk, hfs, hname, hoff, _⟩ := (h3 g hg).head
        -- the block is a well-formed run of lines, so only its head starts at the mapping's start
        obtain ⟨pre, post, hsplit⟩ := List.append_of_mem hg
        have hlb : linesOk g.blk = true := by
          have : ls = pre.flatMap GM.blk ++ (g.blk ++ post.flatMap GM.blk) := by
            rw [← h2, hsplit]; simp
          rw [this] at h
          exact linesOk_append_left _ _ (linesOk_append_right _ _ h)
        have hlf : l = f := by
          rw [hblk] at hlg hlb
          rcases List.mem_cons.mp hlg with rfl | hr
          · rfl
          · have := linesOk_head_lt f rest hlb l hr
            omega
        subst hlf
        simp only [Bool.and_eq_true, beq_iff_eq, Bool.not_eq_true'] at hgate
        have he : effNameOff (some g0) l = (some LINUX_GATE, 0) := by
          unfold effNameOff
          simp [hgate.1, hgate.2]
        rw [hname, hoff, he]
        exact ⟨rfl, rfl⟩
      · left; exact hs
    · have : (l.s == g0 && !isPathName (pathnameOf l.path)) = false := by simpa using hgate
      simp [this]

/-- **C13 (the check's predicate is complete).** Everything the check evaluates on the implementation's
    output holds of the model's output, for every well-formed map and every vDSO address. -/
theorem C13_predicate_complete (gate : Option Nat) (ls : List MLine) (h : linesOk ls = true) :
    c13All gate ls (aggregate gate ls) = true := by
  unfold c13All
  rw [C13_sorted_disjoint gate ls h, C13_coveredOnce gate ls h, C13_hullOk gate ls h, C13_gateOk gate ls h]
  rfl

end Mdw
