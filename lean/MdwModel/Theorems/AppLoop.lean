/- The application-memory writer records one block per requested region, in request order — whatever else has been
   recorded before (stacks, the instruction-pointer window, other requested regions with the same start address). The
   model (`gatherApp`, Model/System.lean) has no way to leave a region out; that the loop of `app_memory::write` has
   none either — no `continue`, `break` or early `Ok` — is a regenerated source fact (`Src.appLoopNoSkip`; false under
   the seed C07_r19, which drops regions whose start address equals that of an earlier block). -/
import MdwModel.Theorems.System
import MdwModel.Generated.Source
namespace Mdw

theorem AppLoop_source_agrees : Src.appLoopNoSkip = none ∨ Src.appLoopNoSkip = some true := by decide

/-- two requested regions with the same start address (a header and the page it introduces, say) are both recorded,
    each at its own position, each with what the reader returns for its own length -/
theorem AppLoop_same_start (mem : TMem) (app : List (Nat × Nat)) (out : List (Nat × Bytes))
    (h : gatherApp mem app = .ok out) (i j a n₁ n₂ : Nat)
    (hi : app[i]? = some (a, n₁)) (hj : app[j]? = some (a, n₂)) :
    ∃ b₁ b₂, out[i]? = some (a, b₁) ∧ out[j]? = some (a, b₂) ∧
      copyFromProcess mem a n₁ = some b₁ ∧ copyFromProcess mem a n₂ = some b₂ := by
  obtain ⟨_, hg⟩ := gatherApp_get mem app out h
  obtain ⟨b₁, h1, c1⟩ := hg i a n₁ hi
  obtain ⟨b₂, h2, c2⟩ := hg j a n₂ hj
  exact ⟨b₁, b₂, h1, h2, c1, c2⟩

/-- as many blocks as requested regions: none dropped, none added -/
theorem AppLoop_count (mem : TMem) (app : List (Nat × Nat)) (out : List (Nat × Bytes))
    (h : gatherApp mem app = .ok out) : out.length = app.length :=
  (gatherApp_get mem app out h).1

end Mdw
