import MdwModel.Pred.C13
namespace Mdw

/-- ghost-instrumented mapping: the lines merged into it, oldest first -/
structure GM where
  m : Mapping
  blk : List MLine

def pushOrFoldG (acc : List GM) (ln : MLine) (off : Nat) (name : Option Bytes) : List GM :=
  match acc with
  | prev :: pp :: rest =>
    if rule3 pp.m prev.m ln.s name then
      ⟨{ pp.m with sysEnd := ln.e, size := ln.e - pp.m.start, perms := permOr pp.m.perms ln.perms },
        pp.blk ++ prev.blk ++ [ln]⟩ :: rest
    else ⟨mkMapping ln.s ln.e off ln.perms name, [ln]⟩ :: acc
  | _ => ⟨mkMapping ln.s ln.e off ln.perms name, [ln]⟩ :: acc

def aggStepG (gate : Option Nat) (acc : List GM) (ln : MLine) : List GM :=
  match acc with
  | prev :: rest =>
    if rule1 prev.m ln.s (effNameOff gate ln).1 then
      ⟨{ prev.m with sysEnd := ln.e, size := ln.e - prev.m.start, perms := permOr prev.m.perms ln.perms },
        prev.blk ++ [ln]⟩ :: rest
    else if rule2 prev.m ln.s (effNameOff gate ln).2 ln.perms then
      ⟨{ prev.m with size := ln.e - prev.m.start }, prev.blk ++ [ln]⟩ :: rest
    else pushOrFoldG acc ln (effNameOff gate ln).2 (effNameOff gate ln).1
  | [] => pushOrFoldG acc ln (effNameOff gate ln).2 (effNameOff gate ln).1

theorem pushOrFoldG_erase (acc : List GM) (ln : MLine) (off : Nat) (name : Option Bytes) :
    (pushOrFoldG acc ln off name).map GM.m = pushOrFold (acc.map GM.m) ln.s ln.e off ln.perms name := by
  match acc with
  | [] => simp [pushOrFoldG, pushOrFold]
  | [a] => simp [pushOrFoldG, pushOrFold]
  | prev :: pp :: rest =>
    simp only [pushOrFoldG, pushOrFold, List.map_cons]
    split <;> simp

theorem aggStepG_erase (gate : Option Nat) (acc : List GM) (ln : MLine) :
    (aggStepG gate acc ln).map GM.m = aggStep gate (acc.map GM.m) ln := by
  match acc with
  | [] =>
    simp only [aggStepG, aggStep, List.map_nil]
    exact pushOrFoldG_erase [] ln _ _
  | prev :: rest =>
    simp only [aggStepG, aggStep, List.map_cons]
    split
    · simp
    · split
      · simp
      · exact pushOrFoldG_erase (prev :: rest) ln _ _

theorem foldG_erase (gate : Option Nat) (acc : List GM) (ls : List MLine) :
    (ls.foldl (aggStepG gate) acc).map GM.m = ls.foldl (aggStep gate) (acc.map GM.m) := by
  induction ls generalizing acc with
  | nil => rfl
  | cons l ls ih => simp only [List.foldl_cons]; rw [ih, aggStepG_erase]

end Mdw

namespace Mdw

/-- what is known of one ghost mapping -/
structure GOk (gate : Option Nat) (g : GM) : Prop where
  head : ∃ f rest, g.blk = f :: rest ∧ g.m.start = f.s ∧ g.m.name = (effNameOff gate f).1 ∧
          g.m.offset = (effNameOff gate f).2 ∧ (rest = [] → g.m.perms = f.perms)
  last : ∃ l, g.blk.getLast? = some l ∧ g.m.end_ = l.e
  contig : contiguous g.blk = true
  sys : g.m.sysStart = g.m.start ∧ g.m.sysEnd ≤ g.m.end_
  pos : g.m.start < g.m.end_
  exec : g.m.perms.testBit 2 = g.blk.any (fun x => x.perms.testBit 2)
  within : ∀ l ∈ g.blk, g.m.start ≤ l.s ∧ l.e ≤ g.m.end_ ∧ l.s < l.e
  reasons : ∀ i, 0 < i → i < g.blk.length → mergeReason gate g.m g.blk i = true

theorem contiguous_append (blk : List MLine) (l ln : MLine) (hc : contiguous blk = true)
    (hl : blk.getLast? = some l) (he : l.e = ln.s) : contiguous (blk ++ [ln]) = true := by
  induction blk with
  | nil => simp at hl
  | cons a rest ih =>
    cases rest with
    | nil =>
      simp at hl; subst hl
      simp [contiguous, he]
    | cons b rest' =>
      simp only [contiguous, Bool.and_eq_true] at hc
      have hl' : (b :: rest').getLast? = some l := by simpa [List.getLast?_cons_cons] using hl
      have := ih hc.2 hl'
      simp only [List.cons_append, contiguous, Bool.and_eq_true]
      exact ⟨hc.1, by simpa using this⟩

/-- the reason of an old index is kept when lines are appended and the mapping keeps its name -/
theorem mergeReason_append (gate : Option Nat) (m m' : Mapping) (blk xs : List MLine) (i : Nat)
    (hname : m'.name = m.name) (hi : i < blk.length) (h : mergeReason gate m blk i = true) :
    mergeReason gate m' (blk ++ xs) i = true := by
  unfold mergeReason at *
  have h1 : (blk ++ xs)[i]? = blk[i]? := List.getElem?_append_left hi
  have h2 : (blk ++ xs).take i = blk.take i := by
    rw [List.take_append_of_le_length (by omega)]
  rw [h1, h2]
  cases hb : blk[i]? with
  | none => rw [hb] at h; simp at h
  | some l =>
    rw [hb] at h
    simp only at h ⊢
    unfold reasonAt sameName at *
    rw [hname]
    by_cases hi1 : i + 1 < blk.length
    · have h3 : (blk ++ xs)[i+1]? = blk[i+1]? := List.getElem?_append_left hi1
      rw [h3]; exact h
    · have h4 : blk[i+1]? = none := by simp; omega
      rw [h4] at h
      simp only [Bool.and_false, Bool.or_false] at h
      simp only [Bool.or_eq_true] at h ⊢
      rcases h with h | h
      · exact Or.inl (Or.inl h)
      · exact Or.inl (Or.inr h)

theorem contiguous_append_list (blk xs : List MLine) (l x : MLine) (hc : contiguous blk = true)
    (hl : blk.getLast? = some l) (hx : xs.head? = some x) (he : l.e = x.s)
    (hcx : contiguous xs = true) : contiguous (blk ++ xs) = true := by
  induction blk with
  | nil => simp at hl
  | cons a rest ih =>
    cases rest with
    | nil =>
      simp at hl; subst hl
      cases xs with
      | nil => simp at hx
      | cons y ys =>
        simp at hx; subst hx
        simp only [List.cons_append, List.nil_append, contiguous, Bool.and_eq_true]
        exact ⟨by simp [he], hcx⟩
    | cons b rest' =>
      simp only [contiguous, Bool.and_eq_true] at hc
      have hl' : (b :: rest').getLast? = some l := by simpa [List.getLast?_cons_cons] using hl
      have := ih hc.2 hl'
      simp only [List.cons_append, contiguous, Bool.and_eq_true]
      exact ⟨hc.1, by simpa using this⟩

/-- extending a ghost mapping by one or more new lines -/
theorem GOk_extend (gate : Option Nat) (g : GM) (xs : List MLine) (m' : Mapping) (x lx : MLine)
    (hg : GOk gate g)
    (hx : xs.head? = some x) (hlx : xs.getLast? = some lx)
    (hxs : x.s = g.m.end_) (hcx : contiguous xs = true)
    (hwx : ∀ l ∈ xs, g.m.end_ ≤ l.s ∧ l.e ≤ lx.e ∧ l.s < l.e)
    (hstart : m'.start = g.m.start) (hend : m'.end_ = lx.e)
    (hname : m'.name = g.m.name) (hoff : m'.offset = g.m.offset)
    (hsys : m'.sysStart = g.m.sysStart) (hsysE : m'.sysEnd ≤ lx.e)
    (hexec : m'.perms.testBit 2 = (g.m.perms.testBit 2 || xs.any (fun y => y.perms.testBit 2)))
    (hreason : ∀ j, j < xs.length → mergeReason gate m' (g.blk ++ xs) (g.blk.length + j) = true) :
    GOk gate ⟨m', g.blk ++ xs⟩ := by
  obtain ⟨⟨f, rest, hblk, hs, hn, ho, hp⟩, ⟨l, hl, hle⟩, hc, hsy, hpos, hex, hw, hr⟩ := hg
  have hxne : xs ≠ [] := by intro h; rw [h] at hx; simp at hx
  have hlxmem : lx ∈ xs := List.mem_of_getLast? hlx
  have hlxe := hwx lx hlxmem
  refine ⟨?_, ?_, ?_, ?_, ?_, ?_, ?_, ?_⟩
  · refine ⟨f, rest ++ xs, by simp [hblk], by simp [hstart, hs], by simp [hname, hn], by simp [hoff, ho], ?_⟩
    intro h; simp at h; exact absurd h.2 hxne
  · refine ⟨lx, ?_, hend⟩
    simp only
    rw [List.getLast?_append, hlx]; rfl
  · exact contiguous_append_list g.blk xs l x hc hl hx (by rw [← hle, hxs]) hcx
  · simp only; rw [hsys, hstart, hend]; exact ⟨hsy.1, hsysE⟩
  · simp only; rw [hstart, hend]; omega
  · simp only; rw [hexec, hex, List.any_append]
  · intro y hy
    simp only at hy ⊢
    rw [hstart, hend]
    rcases List.mem_append.mp hy with hy | hy
    · have := hw y hy; omega
    · have := hwx y hy; omega
  · intro i hi0 hi
    simp only at hi ⊢
    rw [List.length_append] at hi
    by_cases hib : i < g.blk.length
    · exact mergeReason_append gate g.m m' g.blk xs i hname hib (hr i hi0 hib)
    · have := hreason (i - g.blk.length) (by omega)
      have e : g.blk.length + (i - g.blk.length) = i := by omega
      rw [e] at this; exact this

theorem getLast?_append_single {α} (l : List α) (a : α) : (l ++ [a]).getLast? = some a := by
  simp [List.getLast?_append]

end Mdw

namespace Mdw

theorem mkMapping_end (s e off perms : Nat) (name : Option Bytes) (h : s < e) :
    (mkMapping s e off perms name).end_ = e := by
  simp [mkMapping, Mapping.end_]; omega

theorem GOk_fresh (gate : Option Nat) (ln : MLine) (h : ln.s < ln.e) :
    GOk gate ⟨mkMapping ln.s ln.e (effNameOff gate ln).2 ln.perms (effNameOff gate ln).1, [ln]⟩ := by
  have he := mkMapping_end ln.s ln.e (effNameOff gate ln).2 ln.perms (effNameOff gate ln).1 h
  refine ⟨⟨ln, [], rfl, rfl, rfl, rfl, fun _ => rfl⟩, ⟨ln, rfl, he⟩, rfl, ⟨rfl, ?_⟩, ?_, ?_, ?_, ?_⟩
  · rw [he]; simp [mkMapping]
  · rw [he]; simp [mkMapping]; exact h
  · simp [mkMapping]
  · intro l hl; simp at hl; subst hl; rw [he]; simp [mkMapping]; exact h
  · intro i h0 hi; simp at hi; omega

/-- a mapping without a name consists of exactly one line -/
theorem GOk_noname_single (gate : Option Nat) (g : GM) (hg : GOk gate g) (hn : g.m.name = none) :
    ∃ p, g.blk = [p] ∧ g.m.start = p.s ∧ g.m.end_ = p.e ∧ g.m.perms = p.perms ∧
      (effNameOff gate p).1 = none ∧ (effNameOff gate p).2 = g.m.offset ∧ p.s < p.e := by
  obtain ⟨⟨f, rest, hblk, hs, hnm, ho, hp⟩, ⟨l, hl, hle⟩, hc, hsy, hpos, hex, hw, hr⟩ := hg
  cases rest with
  | nil =>
    rw [hblk] at hl; simp at hl
    refine ⟨f, hblk, hs, by rw [hle, ← hl], hp rfl, by rw [← hnm, hn], ho.symm, ?_⟩
    have := hw f (by rw [hblk]; simp); omega
  | cons b r =>
    have := hr 1 (by omega) (by rw [hblk]; simp)
    unfold mergeReason at this
    rw [hblk] at this
    simp only [List.getElem?_cons_succ, List.getElem?_cons_zero] at this
    unfold reasonAt sameName at this
    rw [hn] at this
    simp [isPathName] at this

def sortedDesc : List GM → Prop
  | [] => True
  | [_] => True
  | g1 :: g2 :: r => g2.m.end_ ≤ g1.m.start ∧ sortedDesc (g2 :: r)

structure GInv (gate : Option Nat) (acc : List GM) (ls : List MLine) (le : Nat) : Prop where
  flat : acc.reverse.flatMap GM.blk = ls
  ok : ∀ g ∈ acc, GOk gate g
  sorted : sortedDesc acc
  headEnd : ∀ g, acc.head? = some g → g.m.end_ = le

theorem sortedDesc_replace_head (g g' : GM) (rest : List GM) (h : sortedDesc (g :: rest))
    (hs : g'.m.start = g.m.start) : sortedDesc (g' :: rest) := by
  cases rest with
  | nil => trivial
  | cons a r => exact ⟨by rw [hs]; exact h.1, h.2⟩

theorem testBit2_private : (PERM_PRIVATE).testBit 2 = false := by decide

theorem GInv_step (gate : Option Nat) (acc : List GM) (ls : List MLine) (le : Nat) (ln : MLine)
    (hinv : GInv gate acc ls le) (hle : le ≤ ln.s) (hln : ln.s < ln.e) :
    GInv gate (aggStepG gate acc ln) (ls ++ [ln]) ln.e := by
  obtain ⟨hflat, hok, hsorted, hhead⟩ := hinv
  -- pushing a fresh mapping
  have push : GInv gate (⟨mkMapping ln.s ln.e (effNameOff gate ln).2 ln.perms (effNameOff gate ln).1, [ln]⟩ :: acc)
      (ls ++ [ln]) ln.e := by
    have he := mkMapping_end ln.s ln.e (effNameOff gate ln).2 ln.perms (effNameOff gate ln).1 hln
    refine ⟨?_, ?_, ?_, ?_⟩
    · simp [List.flatMap_append, hflat]
    · intro g hg
      rcases List.mem_cons.mp hg with hg | hg
      · subst hg; exact GOk_fresh gate ln hln
      · exact hok g hg
    · cases acc with
      | nil => trivial
      | cons a r =>
        refine ⟨?_, hsorted⟩
        have := hhead a rfl
        simp [mkMapping]; omega
    · intro g hg; simp at hg; subst hg; exact he
  match acc, hflat, hok, hsorted, hhead, push with
  | [], _, _, _, _, push =>
    simpa [aggStepG, pushOrFoldG] using push
  | prev :: rest, hflat, hok, hsorted, hhead, push =>
    have hprev := hok prev (by simp)
    have hpe : prev.m.end_ = le := hhead prev rfl
    simp only [aggStepG]
    split
    · -- rule 1
      rename_i h1
      simp only [rule1, Bool.and_eq_true, beq_iff_eq] at h1
      obtain ⟨⟨hs, hsome⟩, hnm⟩ := h1
      let m' : Mapping := { prev.m with sysEnd := ln.e, size := ln.e - prev.m.start,
                                        perms := permOr prev.m.perms ln.perms }
      have hend : m'.end_ = ln.e := by
        have := hprev.pos; simp [m', Mapping.end_] at *; omega
      have hg' : GOk gate ⟨m', prev.blk ++ [ln]⟩ := by
        refine GOk_extend gate prev [ln] m' ln ln hprev rfl rfl hs rfl ?_ rfl hend rfl rfl rfl (by simp [m'])
          (by simp [m', permOr, Nat.testBit_or]) ?_
        · intro l hl; simp at hl; subst hl; omega
        · intro j hj
          simp at hj; subst hj
          unfold mergeReason
          simp only [Nat.add_zero, List.getElem?_append_right (Nat.le_refl _), Nat.sub_self,
            List.getElem?_cons_zero]
          unfold reasonAt sameName
          have hsome' : prev.m.name.isSome = true := by rw [← hnm]; exact hsome
          simp [m', hnm, hsome']
      refine ⟨?_, ?_, sortedDesc_replace_head prev _ rest hsorted rfl, ?_⟩
      · simp only [List.reverse_cons, List.flatMap_append, List.flatMap_cons, List.flatMap_nil,
          List.append_nil] at hflat ⊢
        rw [← hflat]; simp
      · intro g hg
        rcases List.mem_cons.mp hg with hg | hg
        · subst hg; exact hg'
        · exact hok g (by simp [hg])
      · intro g hg; simp at hg; subst hg; exact hend
    · split
      · -- rule 2
        rename_i h1 h2
        simp only [rule2, Bool.and_eq_true, beq_iff_eq] at h2
        obtain ⟨⟨⟨⟨hs, hexec⟩, hpath⟩, hoff⟩, hperm⟩ := h2
        let m' : Mapping := { prev.m with size := ln.e - prev.m.start }
        have hend : m'.end_ = ln.e := by
          have := hprev.pos; simp [m', Mapping.end_] at *; omega
        have hg' : GOk gate ⟨m', prev.blk ++ [ln]⟩ := by
          refine GOk_extend gate prev [ln] m' ln ln hprev rfl rfl hs rfl ?_ rfl hend rfl rfl rfl ?_ ?_ ?_
          · intro l hl; simp at hl; subst hl; omega
          · have := hprev.sys.2; simp [m']; omega
          · simp [m', hperm, testBit2_private]
          · intro j hj
            simp at hj; subst hj
            unfold mergeReason
            simp only [Nat.add_zero, List.getElem?_append_right (Nat.le_refl _), Nat.sub_self,
              List.getElem?_cons_zero, List.take_left']
            unfold reasonAt
            have hx : prev.blk.any (fun x => x.perms.testBit 2) = true := by
              rw [← hprev.exec]; exact hexec
            have hp : isPathName m'.name = true := hpath
            simp [hperm, hx, hp]
        refine ⟨?_, ?_, sortedDesc_replace_head prev _ rest hsorted rfl, ?_⟩
        · simp only [List.reverse_cons, List.flatMap_append, List.flatMap_cons, List.flatMap_nil,
            List.append_nil] at hflat ⊢
          rw [← hflat]; simp
        · intro g hg
          rcases List.mem_cons.mp hg with hg | hg
          · subst hg; exact hg'
          · exact hok g (by simp [hg])
        · intro g hg; simp at hg; subst hg; exact hend
      · -- rule 3 or push
        match rest, hflat, hok, hsorted, hhead, push with
        | [], _, _, _, _, push => simpa [pushOrFoldG] using push
        | pp :: rest2, hflat, hok, hsorted, hhead, push =>
          simp only [pushOrFoldG]
          split
          · rename_i h3
            simp only [rule3, Bool.and_eq_true, beq_iff_eq] at h3
            obtain ⟨⟨⟨⟨hpath, hadj⟩, hempty⟩, hs⟩, hnm⟩ := h3
            simp only [Mapping.isEmptyPage, Bool.and_eq_true, beq_iff_eq, Option.isNone_iff_eq_none] at hempty
            obtain ⟨⟨hoff0, hpriv⟩, hnone⟩ := hempty
            have hpp := hok pp (by simp)
            obtain ⟨p, hpb, hps, hpe', hpp', hpn, hpo, hplt⟩ := GOk_noname_single gate prev hprev hnone
            let m' : Mapping := { pp.m with sysEnd := ln.e, size := ln.e - pp.m.start,
                                            perms := permOr pp.m.perms ln.perms }
            have hend : m'.end_ = ln.e := by
              have := hpp.pos; have := hprev.pos
              simp [m', Mapping.end_] at *; omega
            have hsomeN : m'.name.isSome = true := by
              have : isPathName pp.m.name = true := hpath
              simp only [m']
              cases hnn : pp.m.name with
              | none => rw [hnn] at this; simp [isPathName] at this
              | some _ => rfl
            have hg' : GOk gate ⟨m', pp.blk ++ ([p] ++ [ln])⟩ := by
              refine GOk_extend gate pp ([p] ++ [ln]) m' p ln hpp rfl (by simp) (by rw [← hps, hadj]) ?_ ?_
                rfl hend rfl rfl rfl (by simp [m']) ?_ ?_
              · simp [contiguous]; rw [← hpe', hs]
              · intro l hl
                simp at hl
                rcases hl with hl | hl
                · subst hl; rw [← hps, ← hpe']; omega
                · subst hl; have := hprev.pos; omega
              · simp [m', permOr, Nat.testBit_or, ← hpp', hpriv, testBit2_private]
              · intro j hj
                simp at hj
                have hj' : j = 0 ∨ j = 1 := by omega
                rcases hj' with hj' | hj'
                · subst hj'
                  unfold mergeReason
                  simp only [Nat.add_zero, List.getElem?_append_right (Nat.le_refl _), Nat.sub_self,
                    List.cons_append, List.nil_append, List.getElem?_cons_zero]
                  have hnext : (pp.blk ++ p :: [ln])[pp.blk.length + 1]? = some ln := by
                    rw [List.getElem?_append_right (by omega)]; simp
                  rw [hnext]
                  unfold reasonAt sameName
                  have hp : isPathName m'.name = true := hpath
                  have hnm' : (effNameOff gate ln).1 = m'.name := hnm
                  simp [hpn, ← hpp', hpriv, hpo, hoff0, hp, hnm', hsomeN]
                · subst hj'
                  unfold mergeReason
                  have hcur : (pp.blk ++ ([p] ++ [ln]))[pp.blk.length + 1]? = some ln := by
                    rw [List.getElem?_append_right (by omega)]; simp
                  rw [hcur]
                  unfold reasonAt sameName
                  have hnm' : (effNameOff gate ln).1 = m'.name := hnm
                  simp [hnm', hsomeN]
            refine ⟨?_, ?_, ?_, ?_⟩
            · simp only [List.reverse_cons, List.flatMap_append, List.flatMap_cons, List.flatMap_nil,
                List.append_nil] at hflat ⊢
              rw [← hflat, hpb]; simp
            · intro g hg
              rcases List.mem_cons.mp hg with hg | hg
              · subst hg; simpa [hpb] using hg'
              · exact hok g (by simp [hg])
            · exact sortedDesc_replace_head pp _ rest2 hsorted.2 rfl
            · intro g hg; simp at hg; subst hg; exact hend
          · exact push

/-- every prefix of a well-formed map keeps the invariant -/
theorem GInv_fold (gate : Option Nat) (acc : List GM) (done ls : List MLine) (le : Nat)
    (hinv : GInv gate acc done le)
    (hok : ∀ l, ls.head? = some l → le ≤ l.s) (hls : linesOk ls = true) :
    ∃ le', GInv gate (ls.foldl (aggStepG gate) acc) (done ++ ls) le' := by
  induction ls generalizing acc done le with
  | nil => exact ⟨le, by simpa using hinv⟩
  | cons l rest ih =>
    have hl : l.s < l.e ∧ (∀ l', rest.head? = some l' → l.e ≤ l'.s) ∧ linesOk rest = true := by
      cases rest with
      | nil => simp [linesOk] at hls; exact ⟨hls, by simp, rfl⟩
      | cons l' r =>
        simp [linesOk] at hls
        exact ⟨hls.1.1, by intro x hx; simp at hx; subst hx; exact hls.1.2, hls.2⟩
    have hstep := GInv_step gate acc done le l hinv (hok l rfl) hl.1
    obtain ⟨le', h⟩ := ih (aggStepG gate acc l) (done ++ [l]) l.e hstep hl.2.1 hl.2.2
    exact ⟨le', by simpa using h⟩

end Mdw
